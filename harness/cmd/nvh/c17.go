package main

import (
	"sync"
	"os"
	"encoding/hex"
	"io"
	"math/rand"
	"net"
	"strings"
	"time"

	"github.com/go-netty/go-netty/transport"
)

// C17: the real transport wrappers over an in-memory net.Conn.

type memConn struct {
	delta       []byte   // bytes written since last take()
	chunks      [][]byte // what the peer sent
	eofWithLast bool     // the last fragment is returned together with io.EOF (allowed by io.Reader)
	wdeadline   time.Time
	all         []byte // everything written so far
}

func (c *memConn) take() []byte { d := c.delta; c.delta = nil; return d }
func (c *memConn) Write(p []byte) (int, error) {
	if !c.wdeadline.IsZero() && !time.Now().Before(c.wdeadline) {
		return 0, &net.OpError{Op: "write", Err: os.ErrDeadlineExceeded}
	}
	c.delta = append(c.delta, p...)
	c.all = append(c.all, p...)
	return len(p), nil
}
func (c *memConn) Read(p []byte) (int, error) {
	for len(c.chunks) > 0 && len(c.chunks[0]) == 0 {
		c.chunks = c.chunks[1:]
	}
	if len(c.chunks) == 0 {
		return 0, io.EOF
	}
	n := copy(p, c.chunks[0])
	c.chunks[0] = c.chunks[0][n:]
	if c.eofWithLast && len(c.chunks) == 1 && len(c.chunks[0]) == 0 {
		c.chunks = nil
		return n, io.EOF
	}
	return n, nil
}
func (c *memConn) Close() error                     { return nil }
func (c *memConn) LocalAddr() net.Addr              { return nil }
func (c *memConn) RemoteAddr() net.Addr             { return nil }
func (c *memConn) SetDeadline(time.Time) error      { return nil }
func (c *memConn) SetReadDeadline(time.Time) error  { return nil }
func (c *memConn) SetWriteDeadline(t time.Time) error { c.wdeadline = t; return nil }

// gatedRW: writes wait until the gate opens (a momentarily slow connection); reads wait for data
type gatedRW struct {
	memConn
	mu   sync.Mutex
	gate chan struct{}
	data chan []byte
	got  []byte
}

func (g *gatedRW) Write(p []byte) (int, error) {
	<-g.gate
	g.mu.Lock()
	g.got = append(g.got, p...)
	g.mu.Unlock()
	return len(p), nil
}

func (g *gatedRW) Read(p []byte) (int, error) {
	d := <-g.data
	return copy(p, d), nil
}

func runC17(seed int64, count int) {
	rng := rand.New(rand.NewSource(seed))
	rsizes := []int{0, 0, 1, 4, 16, 17, 64}
	wsizes := []int{0, 0, 1, 2, 3, 8, 16, 64, 4096}
	seq := byte(0)
	payload := func(n int) []byte {
		b := make([]byte, n)
		for i := range b {
			seq++
			b[i] = seq
		}
		return b
	}
	for cs := 0; cs < count; cs++ {
		rs, ws := rsizes[rng.Intn(len(rsizes))], wsizes[rng.Intn(len(wsizes))]
		conn := &memConn{}
		t := transport.NewTransport(conn, rs, ws)
		emit("#case c17-%d-r%d-w%d", cs, rs, ws)
		emit("C17 new %d %d", rs, ws)
		plen := func() int {
			if rng.Intn(7) == 0 { // sizes around the pool / merge thresholds a wrapper might special-case, whatever the buffer size
				return []int{511, 512, 513, 1023, 1024, 1025, 2048, 4097}[rng.Intn(8)]
			}
			switch rng.Intn(4) {
			case 0:
				return ws + rng.Intn(5) - 2
			case 1:
				return rng.Intn(4)
			case 2:
				return 2*ws + rng.Intn(3)
			default:
				return rng.Intn(40)
			}
		}
		clip := func(n int) int {
			if n < 0 {
				return 0
			}
			if n > 9000 {
				return 9000
			}
			return n
		}
		nops := 2 + rng.Intn(12)
		for o := 0; o < nops; o++ {
			switch r := rng.Intn(10); {
			case r < 4:
				p := payload(clip(plen()))
				t.Write(p)
				emit("C17 write %s %s", hexOrDash(p), hexOrDash(conn.take()))
			case r < 8:
				k := rng.Intn(4)
				if rng.Intn(3) == 0 {
					k = 4 + rng.Intn(4) // longer batches (a sender draining a backlog)
				}
				var bufs transport.Buffers
				var hs []string
				for i := 0; i < k; i++ {
					p := payload(clip(plen()))
					bufs = append(bufs, p)
					hs = append(hs, hexOrDash(p))
				}
				t.Writev(bufs)
				if rng.Intn(2) == 0 { // the caller recycles its buffers as soon as Writev has returned (the channel's sender does)
					for _, b := range bufs {
						for i := range b {
							b[i] = 0xEE
						}
					}
				}
				arg := strings.Join(hs, ",")
				if k == 0 {
					arg = "-"
				}
				emit("C17 writev %s %s", arg, hexOrDash(conn.take()))
			default:
				t.Flush()
				emit("C17 flush %s", hexOrDash(conn.take()))
			}
		}
		t.Flush()
		emit("C17 flush %s", hexOrDash(conn.take()))
		// read side
		total := rng.Intn(120)
		data := payload(total)
		chunks := chunkings(rng, data, rng.Intn(8))
		for _, c := range chunks {
			conn.chunks = append(conn.chunks, append([]byte(nil), c...))
		}
		conn.eofWithLast = rng.Intn(3) == 0
		emit("C17 feed %s", chunksHex(chunks))
		got := 0
		for it := 0; it < 400 && got < total; it++ {
			k := []int{1, 2, 3, 7, 15, 16, 17, 33, 64, 100}[rng.Intn(10)]
			buf := make([]byte, k)
			n, _ := t.Read(buf)
			got += n
			emit("C17 read %d %s", k, hexOrDash(buf[:n]))
		}
		_ = hex.EncodeToString
		// a write deadline that expires during a flush, after which the caller goes on using the transport: whatever the
		// peer has received must remain a prefix of what the transport accepted (never later bytes without earlier ones)
		if ws > 0 && cs%3 == 0 {
			c4 := &memConn{}
			t4 := transport.NewTransport(c4, rs, ws)
			var accepted []byte
			w := func(p []byte) {
				if n, err := t4.Write(p); err == nil && n == len(p) {
					accepted = append(accepted, p...)
				}
			}
			w(payload(1 + rng.Intn(ws+2)))
			t4.SetWriteDeadline(time.Now().Add(-time.Second)) // already expired
			t4.Flush()
			t4.SetWriteDeadline(time.Time{})
			w(payload(1 + rng.Intn(ws+2)))
			t4.Flush()
			w(payload(1 + rng.Intn(3)))
			t4.Flush()
			emit("C17 dl %s %s", hexOrDash(accepted), hexOrDash(c4.all))
		}
		// full duplex: one goroutine sits in Read while another writes and flushes; the connection's first write is slow.
		// The peer must receive what was written exactly once.
		if rs > 0 && ws > 0 && cs%5 == 0 {
			gc := &gatedRW{gate: make(chan struct{}), data: make(chan []byte, 1)}
			t5 := transport.NewTransport(gc, rs, ws)
			msg := payload(1 + rng.Intn(ws))
			t5.Write(msg) // pending in the write buffer
			rdone := make(chan struct{})
			go func() { defer close(rdone); buf := make([]byte, 4); t5.Read(buf) }()
			time.Sleep(2 * time.Millisecond)
			fdone := make(chan struct{})
			go func() { defer close(fdone); t5.Flush() }()
			time.Sleep(2 * time.Millisecond)
			close(gc.gate)
			<-fdone
			gc.data <- []byte("pong")
			<-rdone
			gc.mu.Lock()
			got := append([]byte(nil), gc.got...)
			gc.mu.Unlock()
			emit("C17 iso %s %s", hexOrDash(msg), hexOrDash(got))
		}
		// connections are independent: after this transport is closed (once or twice) and written to once more by a
		// holder that has not noticed, new transports of the same configuration carry exactly their own bytes
		if ws > 0 && cs%4 == 0 {
			t.Close()
			if rng.Intn(2) == 0 {
				t.Close()
			}
			c2, c3 := &memConn{}, &memConn{}
			t2 := transport.NewTransport(c2, rs, ws)
			t3 := transport.NewTransport(c3, rs, ws)
			t.Write([]byte("STALE"))
			m2, m3 := payload(1+rng.Intn(2*ws+3)), payload(1+rng.Intn(2*ws+3))
			t2.Write(m2)
			t3.Write(m3)
			t.Write([]byte("STALE2"))
			t2.Flush()
			t3.Flush()
			emit("C17 iso %s %s", hexOrDash(m2), hexOrDash(c2.take()))
			emit("C17 iso %s %s", hexOrDash(m3), hexOrDash(c3.take()))
		}
	}
}
