package main

import (
	"nvharness/mock"
	netty "github.com/go-netty/go-netty"
	"time"
	"context"
	"runtime"
	"sync"
	"sync/atomic"
	"bytes"
	"math/rand"
	"runtime/debug"
	"unsafe"

	"github.com/go-netty/go-netty/utils/pool"
	"github.com/go-netty/go-netty/utils/pool/pbuffer"
	"github.com/go-netty/go-netty/utils/pool/pbytes"
)

// C19: Get/Put histories with identity tracking on the generic pool, pbytes and pbuffer.
// Protocol: `C19 new <max>`, `C19 get <size> <class|-> <id> <cap> <fresh>`, `C19 put <id> <cap>`.

type gitem struct{ id, cap int }

func c19Sizes(rng *rand.Rand, max int) int {
	if rng.Intn(14) == 0 { // beyond 32 bits (clamped by the callers that would really allocate)
		return (1 << uint(32+rng.Intn(29))) + rng.Intn(2049) - 1024
	}
	switch rng.Intn(6) {
	case 0: // around a power of two
		k := rng.Intn(19)
		return (1 << uint(k)) + rng.Intn(7) - 3
	case 1: // around a multiple of 1024 (default step)
		return 1024*(1+rng.Intn(70)) + rng.Intn(5) - 2
	case 2: // around max
		return max + rng.Intn(9) - 4
	case 3:
		return rng.Intn(5) - 2
	case 4:
		if max > 0 {
			return rng.Intn(2*max + 2)
		}
		return rng.Intn(64)
	default:
		return rng.Intn(140000)
	}
}

var c19Maxes = []int{65536, 65536, 65536, 1, 2, 3, 10, 16, 32, 63, 64, 65, 100, 128, 1000, 4096, 65537, 1 << 20, 0, -5}

func runC19(seed int64, count int, replay string) {
	debug.SetGCPercent(-1) // keep sync.Pool contents: more reuse, richer histories
	rng := rand.New(rand.NewSource(seed))
	// corpus first: the minimised history of the known capacity defect
	{
		p := pbytes.New(65536)
		emit("#case corpus-put1500-get2000")
		emit("C19 new 65536")
		b := make([]byte, 0, 1500)
		ids := map[unsafe.Pointer]int{}
		id := func(s *[]byte) (int, int) {
			ptr := unsafe.Pointer(unsafe.SliceData((*s)[:cap(*s)]))
			if v, ok := ids[ptr]; ok {
				return v, 0
			}
			ids[ptr] = len(ids) + 1
			return len(ids), 1
		}
		i, _ := id(&b)
		emit("C19 put %d %d", i, cap(b))
		p.Put(&b)
		g := p.Get(2000)
		gi, fresh := id(g)
		emit("C19 get 2000 - %d %d %d", gi, cap(*g), fresh)
	}
	// exclusive ownership under concurrent use: several goroutines get, hold and return buffers of a few classes;
	// a buffer that is handed to a second holder while the first still holds it is a double issue
	{
		emit("#case concurrent-owners")
		p := pbytes.New(65536)
		var held sync.Map // backing array -> holder
		var gets, double, short int64
		var wg sync.WaitGroup
		for g := 0; g < 8; g++ {
			wg.Add(1)
			go func(g int) {
				defer wg.Done()
				for i := 0; i < 6000; i++ {
					size := []int{16, 16, 1024, 1500, 65536, 100, 5000}[(g+i)%7]
					b := p.Get(size)
					if cap(*b) < size {
						atomic.AddInt64(&short, 1)
					}
					ptr := unsafe.Pointer(unsafe.SliceData((*b)[:cap(*b)]))
					atomic.AddInt64(&gets, 1)
					if _, loaded := held.LoadOrStore(ptr, g); loaded {
						atomic.AddInt64(&double, 1)
					} else {
						if i%64 == 0 {
							runtime.Gosched()
						}
						held.Delete(ptr)
					}
					p.Put(b)
				}
			}(g)
		}
		wg.Wait()
		emit("C19 conc 8 %d %d %d", gets, double, short)
	}
	// the pool as the channel uses it: a queued channel clones payloads into pool buffers and its sender gives a
	// whole batch back after one gathering write; afterwards the default pool must hand out distinct buffers of
	// sufficient capacity again
	for round := 0; round < 4; round++ {
		emit("#case channel-recycle-%d", round)
		pl := netty.NewPipeline()
		tr := mock.NewTransport()
		dexec := &deferExec{}
		ch := netty.NewAsyncWriteChannel(16, false)(int64(round), context.Background(), pl, tr, dexec)
		netty.NvAttach(pl, ch)
		sizes := [][]int{{3000, 500}, {500, 3000, 100}, {1500, 1500, 70000, 10}, {100, 100}}[round]
		short, dup := 0, 0
		func() {
			// the channel slices the buffer it is given to the payload's length: a pool that hands out less than
			// was asked for makes it panic, which is the capacity clause failing at the caller
			defer func() {
				if r := recover(); r != nil {
					short++
				}
			}()
			for _, n := range sizes {
				ch.Write1(bytes.Repeat([]byte{byte(n)}, n))
			}
			dexec.runAll() // one batch: Writev, then the batch is recycled
		}()
		deadline := time.Now().Add(2 * time.Second)
		for (netty.NvQueueLen(ch) > 0 || netty.NvSenderRunning(ch)) && time.Now().Before(deadline) {
			time.Sleep(50 * time.Microsecond)
		}
		var got []*[]byte
		seen := map[unsafe.Pointer]bool{}
		for k := 0; k < 3; k++ {
			for _, n := range sizes {
				b := pbytes.Get(n)
				if cap(*b) < n {
					short++
				}
				if cap(*b) > 0 {
					ptr := unsafe.Pointer(unsafe.SliceData((*b)[:cap(*b)]))
					if seen[ptr] {
						dup++
					}
					seen[ptr] = true
				}
				got = append(got, b)
			}
		}
		for _, b := range got {
			pbytes.Put(b)
		}
		emit("C19 conc 1 %d %d %d", len(got), dup, short)
		ch.Close(nil)
	}
	// a holder that keeps the slice and not the pointer it was given (`buf := *pool.Get(n)`, as the channel does), with
	// garbage collections in between: the buffer stays its holder's until it is Put
	for _, procs := range []int{1, 0, 1} { // one P: the finalizer goroutine and the next Get share sync.Pool's per-P cache
		emit("#case gc-while-held-procs%d", procs)
		prev := 0
		if procs > 0 {
			prev = runtime.GOMAXPROCS(procs)
		}
		p := pbytes.New(65536)
		var held [][]byte
		double := 0
		owner := map[unsafe.Pointer]int{}
		for k := 0; k < 6; k++ {
			b := *p.Get(1000 + k)
			for i := range b[:cap(b)] {
				b[:cap(b)][i] = byte('A' + k)
			}
			ptr := unsafe.Pointer(unsafe.SliceData(b[:cap(b)]))
			if _, taken := owner[ptr]; taken {
				double++
			}
			owner[ptr] = k
			held = append(held, b)
			runtime.GC()
			runtime.GC()
			time.Sleep(5 * time.Millisecond) // finalizers, if any, run now
		}
		for k, b := range held { // nobody else wrote into what we hold
			for _, x := range b[:cap(b)] {
				if x != byte('A'+k) {
					double++
					break
				}
			}
		}
		for i := range held {
			b := held[i] // a variable of its own, as `buf := buf[:0]; pool.Put(&buf)` in the channel's sender
			p.Put(&b)
		}
		// returned once, then a collection: each buffer is in the pool at most once
		runtime.GC()
		runtime.GC()
		time.Sleep(5 * time.Millisecond)
		again := map[unsafe.Pointer]bool{}
		var keep [][]byte
		for k := 0; k < 2*len(held); k++ {
			b := *p.Get(1000 + k%6)
			ptr := unsafe.Pointer(unsafe.SliceData(b[:cap(b)]))
			if again[ptr] {
				double++
			}
			again[ptr] = true
			keep = append(keep, b)
		}
		runtime.KeepAlive(keep)
		emit("C19 conc 1 %d %d 0", 3*len(held), double)
		if procs > 0 {
			runtime.GOMAXPROCS(prev)
		}
	}
	// many buffers of one class parked in the pool at the same time, then taken out again and held together
	for _, n := range []int{3, 9, 12, 20} {
		emit("#case parked-%d", n)
		p := pbytes.New(65536)
		var bufs []*[]byte
		for i := 0; i < n; i++ {
			b := make([]byte, 0, 2048)
			bufs = append(bufs, &b)
		}
		for _, b := range bufs {
			p.Put(b)
		}
		seen := map[unsafe.Pointer]bool{}
		dup, short := 0, 0
		var got []*[]byte
		for i := 0; i < n; i++ {
			b := p.Get(2000)
			if cap(*b) < 2000 {
				short++
			}
			ptr := unsafe.Pointer(unsafe.SliceData((*b)[:cap(*b)]))
			if seen[ptr] {
				dup++
			}
			seen[ptr] = true
			got = append(got, b)
		}
		emit("C19 conc 1 %d %d %d", n, dup, short)
	}
	for h := 0; h < count; h++ {
		max := c19Maxes[rng.Intn(len(c19Maxes))]
		nops := 10 + rng.Intn(60)
		switch h % 3 {
		case 0: // generic pool: the class n is observable
			p := pool.New[*gitem](max)
			emit("#case generic-%d-max%d", h, max)
			emit("C19 new %d", max)
			var held []*gitem
			next := 1
			for i := 0; i < nops; i++ {
				switch r := rng.Intn(10); {
				case r < 5:
					sz := c19Sizes(rng, max)
					v, n := p.Get(sz)
					fresh := 0
					if v == nil {
						v = &gitem{id: next, cap: n}
						next++
						fresh = 1
					}
					emit("C19 get %d %d %d %d %d", sz, n, v.id, v.cap, fresh)
					held = append(held, v)
				case r < 8 && len(held) > 0:
					k := rng.Intn(len(held))
					v := held[k]
					held = append(held[:k], held[k+1:]...)
					emit("C19 put %d %d", v.id, v.cap)
					p.Put(v, v.cap)
				default: // foreign item of arbitrary capacity
					c := c19Sizes(rng, max)
					if c < 0 {
						c = 0
					}
					v := &gitem{id: next, cap: c}
					next++
					emit("C19 put %d %d", v.id, v.cap)
					p.Put(v, v.cap)
				}
			}
		case 1: // pbytes
			p := pbytes.New(max)
			emit("#case pbytes-%d-max%d", h, max)
			emit("C19 new %d", max)
			ids := map[unsafe.Pointer]int{}
			next := 1
			idOf := func(s *[]byte) (int, int) {
				if cap(*s) == 0 {
					next++
					return next - 1, 1
				}
				ptr := unsafe.Pointer(unsafe.SliceData((*s)[:cap(*s)]))
				if v, ok := ids[ptr]; ok {
					return v, 0
				}
				ids[ptr] = next
				next++
				return next - 1, 1
			}
			var held []*[]byte
			for i := 0; i < nops; i++ {
				switch r := rng.Intn(10); {
				case r < 5:
					sz := c19Sizes(rng, max)
					if sz > 1<<22 {
						sz = 1 << 22
					}
					v := p.Get(sz)
					id, fresh := idOf(v)
					emit("C19 get %d - %d %d %d", sz, id, cap(*v), fresh)
					// exclusive ownership of the whole capacity: no byte of it belongs to another buffer that is held
					if cap(*v) > 0 {
						lo := uintptr(unsafe.Pointer(unsafe.SliceData((*v)[:cap(*v)])))
						hi := lo + uintptr(cap(*v))
						for _, o := range held {
							if cap(*o) == 0 {
								continue
							}
							olo := uintptr(unsafe.Pointer(unsafe.SliceData((*o)[:cap(*o)])))
							ohi := olo + uintptr(cap(*o))
							if lo < ohi && olo < hi && lo != olo {
								oid, _ := idOf(o)
								emit("C19 overlap %d %d %d %d", id, cap(*v), oid, cap(*o))
							}
						}
					}
					held = append(held, v)
				case r < 8 && len(held) > 0:
					k := rng.Intn(len(held))
					v := held[k]
					held = append(held[:k], held[k+1:]...)
					id, _ := idOf(v)
					emit("C19 put %d %d", id, cap(*v))
					p.Put(v)
				default:
					c := c19Sizes(rng, max)
					if c < 0 {
						c = 0
					}
					if c > 1<<22 {
						c = 1 << 22
					}
					b := make([]byte, 0, c)
					id, _ := idOf(&b)
					emit("C19 put %d %d", id, cap(b))
					p.Put(&b)
				}
			}
		case 2: // pbuffer
			p := pbuffer.New(max)
			emit("#case pbuffer-%d-max%d", h, max)
			emit("C19 new %d", max)
			ids := map[*bytes.Buffer]int{}
			next := 1
			idOf := func(b *bytes.Buffer) (int, int) {
				if v, ok := ids[b]; ok {
					return v, 0
				}
				ids[b] = next
				next++
				return next - 1, 1
			}
			var held []*bytes.Buffer
			for i := 0; i < nops; i++ {
				switch r := rng.Intn(10); {
				case r < 5:
					sz := c19Sizes(rng, max)
					if sz > 1<<22 {
						sz = 1 << 22
					}
					v := p.Get(sz)
					id, fresh := idOf(v)
					emit("C19 get %d - %d %d %d", sz, id, v.Cap(), fresh)
					held = append(held, v)
				case r < 8 && len(held) > 0:
					k := rng.Intn(len(held))
					v := held[k]
					held = append(held[:k], held[k+1:]...)
					id, _ := idOf(v)
					v.WriteString("x") // use it
					v.Reset()
					emit("C19 put %d %d", id, v.Cap())
					p.Put(v)
				default:
					c := c19Sizes(rng, max)
					if c < 0 {
						c = 0
					}
					if c > 1<<22 {
						c = 1 << 22
					}
					b := bytes.NewBuffer(make([]byte, 0, c))
					id, _ := idOf(b)
					emit("C19 put %d %d", id, b.Cap())
					p.Put(b)
				}
			}
		}
	}
	_ = replay
}
