// nvh: the correspondence harness. It calls the real go-netty code in-process and writes one
// line per operation/observation in the driver's line protocol (see lean/Driver).
package main

import (
	"time"
	"bufio"
	"flag"
	"fmt"
	"os"
)

var out *bufio.Writer

func emit(format string, a ...interface{}) {
	fmt.Fprintf(out, format, a...)
	out.WriteByte('\n')
}

func main() {
	prop := flag.String("prop", "", "property id")
	seed := flag.Int64("seed", 1, "PRNG seed")
	count := flag.Int("count", 200, "number of generated cases")
	replay := flag.String("replay", "", "replay file (property specific)")
	flag.Parse()
	out = bufio.NewWriterSize(os.Stdout, 1<<20)
	defer out.Flush()
	switch *prop {
	case "C19":
		runC19(*seed, *count, *replay)
	case "C03":
		runC03(*seed, *count)
	case "C07":
		runC07(*seed, *count)
		runC07n(*seed, *count)
	case "C14":
		runC14(*seed, *count)
	case "C17":
		runC17(*seed, *count)
	case "C11":
		runC11(*seed, *count)
		runC11pw()
	case "C02":
		runC02burst()
	case "C06":
		runC06http()
		runC06deadline()
	case "C18":
		runC18rf(*seed, *count)
		if *count >= 10000 {
			runC18cap(*seed, 31*time.Second)
		} else {
			runC18cap(*seed, 5500*time.Millisecond)
		}
	case "C13":
		runC13tcp(*seed, *count)
	case "C15":
		runC15(*seed, *count)
	case "C16":
		runC16(*seed, *count)
	case "C04", "C08":
		runC04(*prop, *seed, *count)
	default:
		fmt.Fprintln(os.Stderr, "nvh: unknown property", *prop)
		os.Exit(2)
	}
}
