package main

import (
	"fmt"
	"math/rand"

	"nvharness/rt"
)

var payloadSeq int

// self-describing payload: <tag bytes…> unique per call
func payload(rng *rand.Rand, n int) []byte {
	payloadSeq++
	b := make([]byte, n)
	for i := range b {
		b[i] = byte(payloadSeq*7 + i)
	}
	if n > 0 {
		b[0] = byte(payloadSeq)
	}
	return b
}

func genWriteOp(rng *rand.Rand, nctx int, allowCtx bool) Op {
	sz := []int{1, 1, 2, 3, 0, 5}[rng.Intn(6)]
	switch k := rng.Intn(10); {
	case k < 4:
		return Op{Kind: "w1", Bufs: [][]byte{payload(rng, sz)}}
	case k < 6:
		n := 1 + rng.Intn(2)
		var bs [][]byte
		for i := 0; i < n; i++ {
			bs = append(bs, payload(rng, 1+rng.Intn(2)))
		}
		return Op{Kind: "wv", Bufs: bs}
	case k < 7:
		if rng.Intn(3) == 0 {
			return Op{Kind: "sw", Bufs: [][]byte{payload(rng, sz)}}
		}
		return Op{Kind: "ww", Bufs: [][]byte{payload(rng, sz)}}
	case k < 9 && allowCtx:
		ctx := "live"
		switch rng.Intn(5) {
		case 0:
			ctx = "done"
		case 4:
			ctx = "dl"
		case 1:
			if nctx > 0 {
				ctx = fmt.Sprintf("k%d", rng.Intn(nctx))
			}
		}
		if rng.Intn(2) == 0 {
			return Op{Kind: "cw1", Ctx: ctx, Bufs: [][]byte{payload(rng, sz)}}
		}
		return Op{Kind: "cwv", Ctx: ctx, Bufs: [][]byte{payload(rng, 1), payload(rng, 1)}}
	default:
		return Op{Kind: "w1", Bufs: [][]byte{payload(rng, sz)}}
	}
}

// genScenario draws a small scenario appropriate for the property.
func genScenario(prop string, rng *rand.Rand) *Scenario {
	sc := &Scenario{}
	switch rng.Intn(5) {
	case 0:
		sc.Sync = true
	default:
		sc.Qcap = []int{1, 1, 2, 2, 3, 4}[rng.Intn(6)]
		sc.Until = rng.Intn(3) != 0
	}
	closers := 0
	cancellers := 0
	switch prop {
	case "C05", "C06", "C11":
		closers = 1 + rng.Intn(2)
	case "C01": // "a write call that returned an error contributes no bytes": errors come from Close arriving meanwhile
		if rng.Intn(3) == 0 {
			closers = 1
		}
	case "C18":
		if rng.Intn(2) == 0 {
			cancellers = 1
		}
		if rng.Intn(3) == 0 {
			closers = 1
		}
		if sc.Sync {
			sc.Sync = false
			sc.Qcap = 1 + rng.Intn(2)
			sc.Until = rng.Intn(2) == 0
		}
	}
	if (prop == "C05" || prop == "C07") && !sc.Sync && rng.Intn(2) == 0 {
		sc.FailAt = 1 + rng.Intn(2)
		if prop == "C07" {
			closers = 0
			sc.Consume = rng.Intn(2) == 0
		}
	}
	if (prop == "C01" || prop == "C02" || prop == "C06") && sc.FailAt == 0 && rng.Intn(4) == 0 {
		if sc.Sync {
			sc.Buffered = -1 // the unbuffered wrapper: a vectored write is one connection write per buffer
		} else {
			sc.Buffered = []int{4, 16, 4096}[rng.Intn(3)]
		}
	}
	// C05: a peer that does not read. Every transport write then lasts until the transport is closed, so it is Close
	// (there is always a closer in these scenarios) that ends it; not on channels that wait for pending writes without bound
	if prop == "C05" && sc.FailAt == 0 && sc.Buffered == 0 && (sc.Sync || !sc.Until) && rng.Intn(3) == 0 {
		sc.Stalled = true
	}
	// 1/12 of the queued scenarios carry payloads of 33000 bytes: two of them exceed every 64 KiB threshold
	sc.Big = (prop == "C01" || prop == "C02" || prop == "C06" || prop == "C10") && !sc.Sync && rng.Intn(8) == 0
	if prop == "C10" && rng.Intn(3) == 0 {
		cancellers = 1 // a caller context cancelled while its write is in progress
	}
	sc.NCtx = cancellers
	bigSize := 33000
	if sc.Big && rng.Intn(3) == 0 {
		bigSize = 140000 // two of them exceed 256 KiB
	}
	// 1/15: a long burst from one writer into a small queue (the sender goes many rounds without finding the queue empty)
	burst := (prop == "C01" || prop == "C02" || prop == "C06") && !sc.Sync && !sc.Big && sc.FailAt == 0 && rng.Intn(15) == 0
	if burst {
		sc.Qcap, sc.Until = 1+rng.Intn(2), true
	}
	nw := 1 + rng.Intn(3)
	for w := 0; w < nw; w++ {
		th := Thread{Name: fmt.Sprintf("W%d", w+1)}
		nops := 1 + rng.Intn(3)
		if burst && w == 0 {
			nops = 18 + rng.Intn(8)
		}
		for i := 0; i < nops; i++ {
			op := genWriteOp(rng, sc.NCtx, prop != "C01" || rng.Intn(3) == 0)
			if sc.Big && len(op.Bufs) > 0 && rng.Intn(2) == 0 {
				for j := range op.Bufs {
					op.Bufs[j] = payload(rng, bigSize)
				}
			}
			if prop == "C10" && sc.NCtx > 0 && (op.Kind == "cw1" || op.Kind == "cwv") && rng.Intn(3) != 0 {
				op.Ctx = "k0" // the context the canceller goroutine cancels while the write is under way
			}
			if prop == "C10" && sc.NCtx > 0 && op.Kind == "w1" && rng.Intn(3) == 0 {
				op.Kind, op.Ctx = "cw1", "k0"
			}
			if prop == "C10" {
				op.Over = true
				if rng.Intn(12) == 0 && len(op.Bufs) == 1 { // beyond the largest pool class
					op.Bufs[0] = payload(rng, 65537+rng.Intn(3))
				}
			}
			th.Ops = append(th.Ops, op)
		}
		if prop == "C11" && rng.Intn(2) == 0 {
			th.Ops = append(th.Ops, Op{Kind: "ia"})
		}
		sc.Threads = append(sc.Threads, th)
	}
	if prop == "C10" && rng.Intn(2) == 0 {
		sc.Threads = append(sc.Threads, Thread{Name: "P1", Ops: []Op{{Kind: "ps"}}})
	}
	for k := 0; k < closers; k++ {
		th := Thread{Name: fmt.Sprintf("C%d", k+1)}
		if (prop == "C06" || prop == "C05" || prop == "C11") && rng.Intn(4) == 0 {
			th.Ops = append(th.Ops, Op{Kind: "px"}) // the parent (bootstrap) context is cancelled first
		}
		th.Ops = append(th.Ops, Op{Kind: "cl", Err: []string{"e1", "e2", "nil", "to", "eof"}[rng.Intn(5)]})
		if prop == "C11" || rng.Intn(3) == 0 {
			th.Ops = append(th.Ops, genWriteOp(rng, sc.NCtx, true))
		}
		if prop == "C05" || prop == "C11" || rng.Intn(3) == 0 {
			th.Ops = append(th.Ops, Op{Kind: "ia"})
		}
		sc.Threads = append(sc.Threads, th)
	}
	for k := 0; k < cancellers; k++ {
		sc.Threads = append(sc.Threads, Thread{Name: fmt.Sprintf("X%d", k+1), Ops: []Op{{Kind: "cx", N: k}}})
	}
	return sc
}

// onlyScenario >= 0: generate the scenarios as usual but execute only this one (targeted escalation)
var onlyScenario = -1

// dfsAny: DFS does not skip big scenarios (keeps the scenario numbering of the random mode)
var dfsAny = false

func runProp(prop string, seed int64, count, scheds, dfsBound, dfsCap int) {
	rng := rand.New(rand.NewSource(seed))
	for i := 0; i < count && rt.StuckTotal < 3; i++ {
		sc := genScenario(prop, rng)
		for dfsBound > 0 && sc.Big && !dfsAny {
			sc = genScenario(prop, rng)
		}
		if onlyScenario >= 0 && i != onlyScenario {
			continue // same generator state as the run that is being narrowed down, one scenario executed
		}
		if dfsBound > 0 {
			n := 0
			exploreDFS(sc, dfsBound, dfsCap, func(c *rt.Controller) {
				emit("#case %s-%d-dfs%d", prop, i, n)
				printRun(prop, sc, c)
				n++
			})
			continue
		}
		for s := 0; s < scheds && rt.StuckTotal < 3; s++ {
			if sc.Big && (s >= 24 || (s >= 4 && onlyScenario < 0)) {
				break // large payloads make long lines: a few schedules are enough
			}
			st := &rt.Random{State: uint64(seed)*1000003 + uint64(i)*7919 + uint64(s)*104729 + 1, Stickiness: []int{0, 50, 80, 95}[s%4]}
			c := runScenario(sc, st)
			emit("#case %s-%d-r%d", prop, i, s)
			printRun(prop, sc, c)
		}
	}
}

// exploreDFS enumerates schedules with at most `bound` preemptions (iterative context bounding by
// stateless re-execution), calling visit for every complete execution, at most cap executions.
func exploreDFS(sc *Scenario, bound, cap int, visit func(*rt.Controller)) {
	exploreGeneric(func(st rt.Strategy) *rt.Controller { return runScenario(sc, st) }, bound, cap, visit)
}

func exploreGeneric(runOnce func(rt.Strategy) *rt.Controller, bound, cap int, visit func(*rt.Controller)) {
	type item struct {
		prefix []rt.Choice
		preempt int
	}
	stack := []item{{}}
	runs := 0
	for len(stack) > 0 && runs < cap && rt.StuckTotal < 3 {
		it := stack[len(stack)-1]
		stack = stack[:len(stack)-1]
		rp := &rt.Replay{Choices: it.prefix}
		c := runOnce(rp)
		runs++
		visit(c)
		// alternatives beyond the prefix
		pre := it.preempt
		prev := ""
		for step := 0; step < len(rp.Seen); step++ {
			en := rp.Seen[step]
			took := en[rp.Took[step]]
			if step >= len(it.prefix) {
				prevEnabled := false
				for _, ch := range en {
					if ch.Tid == prev {
						prevEnabled = true
					}
				}
				for k, ch := range en {
					if k == rp.Took[step] {
						continue
					}
					if ch.Sleep { // fairness: a goroutine that sleeps in a poll loop is not resumed while another one can run
						other := false
						for _, oc := range en {
							if !oc.Sleep {
								other = true
							}
						}
						if other {
							continue
						}
					}
					cost := 0
					if prevEnabled && ch.Tid != prev {
						cost = 1
					}
					for _, pc := range en { // leaving a sleeping goroutine is free
						if pc.Tid == prev && pc.Sleep {
							cost = 0
						}
					}
					if pre+cost > bound {
						continue
					}
					np := make([]rt.Choice, 0, step+1)
					for j := 0; j < step; j++ {
						np = append(np, rp.Seen[j][rp.Took[j]])
					}
					np = append(np, ch)
					stack = append(stack, item{np, pre + cost})
				}
			}
			// account preemptions along the taken path
			if step >= len(it.prefix) {
				prevEnabled := false
				for _, ch := range en {
					if ch.Tid == prev {
						prevEnabled = true
					}
				}
				if prevEnabled && took.Tid != prev && prev != "" {
					pre++
				}
			}
			prev = took.Tid
		}
	}
}
