package main

import (
	"bytes"
	"context"
	"encoding/binary"
	"encoding/hex"
	"fmt"
	"io"
	"math/rand"
	"strings"

	netty "github.com/go-netty/go-netty"
	"github.com/go-netty/go-netty/codec/format"
	"github.com/go-netty/go-netty/codec/frame"
	"github.com/go-netty/go-netty/transport"
	"nvharness/mock"
	"nvharness/rt"
)

// C09: several goroutines write messages of every carrier type through the real pipeline (plain,
// delimiter+text, length-field) of one channel under the cooperative controller. The frame each
// message must produce is taken from a sequential run of the same pipeline on a fresh channel.

type c09Msg struct {
	kind string // b v f w r m s
	body []byte
	k    int    // parts (v, w, m)
	via  string // ch (Channel.Write) | ctx (HandlerContext.Write of the last handler) | pl (Pipeline.FireChannelWrite)
}

func (m c09Msg) String() string { return fmt.Sprintf("mw:%s:%d:%d", m.kind, len(m.body), m.k) }

type c09Scenario struct {
	nb       bool // non-blocking queue: a write that finds the queue full is refused (its message may be cut short or absent)
	buffered int // > 0: queued channel over the library's write-buffered transport of this size
	sync     bool
	qcap     int
	pipeline string // plain | delim | lf
	threads  [][]c09Msg
}

type partsWriter struct{ parts [][]byte }

func (p partsWriter) WriteTo(w io.Writer) (int64, error) {
	var n int64
	for _, b := range p.parts {
		k, err := w.Write(b)
		n += int64(k)
		if err != nil {
			return n, err
		}
	}
	return n, nil
}

type plainReader struct{ r io.Reader } // hides WriterTo of the wrapped reader

func (p plainReader) Read(b []byte) (int, error) { return p.r.Read(b) }

func split(b []byte, k int) [][]byte {
	if k < 1 {
		k = 1
	}
	var out [][]byte
	step := (len(b) + k - 1) / k
	if step == 0 {
		step = 1
	}
	for i := 0; i < len(b); i += step {
		j := i + step
		if j > len(b) {
			j = len(b)
		}
		out = append(out, b[i:j])
	}
	return out
}

func (m c09Msg) value() netty.Message {
	body := append([]byte(nil), m.body...)
	switch m.kind {
	case "b":
		return body
	case "v":
		return split(body, m.k)
	case "f":
		return bytes.NewBuffer(body)
	case "w":
		return partsWriter{split(body, m.k)}
	case "r":
		return plainReader{bytes.NewReader(body)}
	case "m":
		var rs []io.Reader
		for _, p := range split(body, m.k) {
			rs = append(rs, bytes.NewReader(p))
		}
		return io.MultiReader(rs...)
	case "s":
		return string(body)
	}
	panic("kind")
}

// the application handler at the end of the pipeline: messages written through its context enter the
// pipeline there (what a handler replying from HandleRead does)
type c09App struct{}

func (c09App) HandleRead(ctx netty.InboundContext, m netty.Message) { ctx.HandleRead(m) }

// swallows exceptions: a refused write (queue full) must not close the channel under the other writers
type c09Swallow struct{}

func (c09Swallow) HandleException(ctx netty.ExceptionContext, ex netty.Exception) {}

func c09Pipeline(kind string) netty.Pipeline {
	pl := c09Codecs(kind)
	pl.AddLast(c09App{})
	return pl
}

func c09Codecs(kind string) netty.Pipeline {
	pl := netty.NewPipeline()
	switch kind {
	case "delim":
		pl.AddLast(frame.DelimiterCodec(1<<20, "\n", true), format.TextCodec())
	case "lf":
		pl.AddLast(frame.LengthFieldCodec(binary.BigEndian, 1<<20, 0, 2, 0, 2))
	case "varint":
		pl.AddLast(frame.VarintLengthFieldCodec(1 << 20))
	case "varint+text":
		pl.AddLast(frame.VarintLengthFieldCodec(1<<20), format.TextCodec())
	case "packet":
		pl.AddLast(frame.PacketCodec(1 << 20))
	}
	return pl
}

func genC09(rng *rand.Rand) *c09Scenario {
	sc := &c09Scenario{sync: rng.Intn(2) == 0, qcap: []int{1, 2, 4, 8}[rng.Intn(4)], pipeline: []string{"plain", "plain", "delim", "delim", "lf", "varint", "varint+text", "packet"}[rng.Intn(8)]}
	if !sc.sync && rng.Intn(4) == 0 {
		sc.buffered = []int{16, 64, 512}[rng.Intn(3)]
	}
	if !sc.sync && sc.buffered == 0 && rng.Intn(6) == 0 {
		sc.nb, sc.pipeline = true, "plain"
	}
	nt := 2 + rng.Intn(2)
	if rng.Intn(10) == 0 {
		// a backlog of large packets: two-part messages of 70000 bytes, more than 64 KiB queued behind a stalled sender
		sc.sync, sc.qcap, sc.pipeline = false, []int{4, 8}[rng.Intn(2)], "plain"
		for t := 0; t < nt; t++ {
			body := []byte(fmt.Sprintf("<T%d.0:", t+1))
			for len(body) < 69999 {
				body = append(body, byte('a'+t))
			}
			body = append(body, '>')
			sc.threads = append(sc.threads, []c09Msg{{kind: []string{"w", "w", "v"}[rng.Intn(3)], body: body, k: 2, via: "ch"}})
		}
		return sc
	}
	for t := 0; t < nt; t++ {
		var ms []c09Msg
		for i := 0; i < 1+rng.Intn(2); i++ {
			var kinds []string
			switch sc.pipeline {
			case "plain":
				kinds = []string{"b", "v", "f", "w", "w", "r", "r", "m", "m"}
			case "delim":
				kinds = []string{"s", "s", "b", "r", "m", "f"}
			case "varint+text":
				kinds = []string{"s", "b", "f"}
			case "packet":
				kinds = []string{"b", "r", "f", "m", "v"}
			default:
				kinds = []string{"b", "s", "r", "v", "v"}
			}
			kind := kinds[rng.Intn(len(kinds))]
			n := []int{3, 9, 40, 130, 300}[rng.Intn(5)] // 130/300: a two-byte varint length prefix
			if (kind == "r" || kind == "s" || kind == "f" || kind == "m") && rng.Intn(2) == 0 {
				n = []int{1024, 1025, 1500, 2100}[rng.Intn(4)] // at and above the 1024-byte streaming chunk
			}
			hdr := fmt.Sprintf("<T%d.%d:", t+1, i)
			body := []byte(hdr)
			for len(body) < n {
				body = append(body, byte('a'+t))
			}
			body = append(body, '>')
			ms = append(ms, c09Msg{kind: kind, body: body, k: 2 + rng.Intn(2), via: []string{"ch", "ch", "ctx", "pl"}[rng.Intn(4)]})
		}
		sc.threads = append(sc.threads, ms)
	}
	return sc
}

// expected frame: the same pipeline, one message, sequentially, on a fresh synchronous channel
func c09Frame(pipeline string, m c09Msg) []byte {
	tr := mock.NewTransport()
	pl := c09Pipeline(pipeline)
	ch := netty.NewChannel()(99, context.Background(), pl, tr, nopExec{})
	netty.NvAttach(pl, ch)
	ch.Write(m.value())
	return tr.Written()
}

type nopExec struct{}

func (nopExec) Exec(a netty.Action) {}

func runC09Scenario(sc *c09Scenario, strat rt.Strategy) (*rt.Controller, *mock.Transport) {
	c := rt.New()
	c.MaxStep = 6000
	netty.NvRT = c
	defer func() { netty.NvRT = nil }()
	tr := mock.NewTransport()
	var trx transport.Transport = tr
	if sc.buffered > 0 {
		// what reaches the mock is what the connection under the library's buffered writer receives
		trx = transport.NewTransport(tr, 0, sc.buffered)
	}
	pl := c09Pipeline(sc.pipeline)
	var ch netty.Channel
	if sc.sync {
		ch = netty.NewChannel()(1, context.Background(), pl, trx, ctlExec{c})
	} else {
		ch = netty.NewAsyncWriteChannel(sc.qcap, !sc.nb)(1, context.Background(), pl, trx, ctlExec{c})
	}
	if sc.nb {
		pl.AddLast(c09Swallow{})
	}
	netty.NvAttach(pl, ch)
	for ti, ms := range sc.threads {
		ms := ms
		c.Go(fmt.Sprintf("T%d", ti+1), func() {
			for i, m := range ms {
				if i > 0 {
					c.Yield("call")
				}
				c.Emit("begin:%d", i)
				st := func() (st string) {
					defer func() {
						if r := recover(); r != nil {
							st = "panic"
						}
					}()
					switch m.via {
					case "ctx":
						idx := pl.LastIndexOf(func(h netty.Handler) bool { _, ok := h.(c09App); return ok })
						pl.ContextAt(idx).Write(m.value())
					case "pl":
						pl.FireChannelWrite(m.value())
					default:
						if err := ch.Write(m.value()); err != nil {
							return "err"
						}
					}
					return "ok"
				}()
				c.Emit("ret:%d:%s", i, st)
			}
		})
	}
	c.Run(strat)
	return c, tr
}

// a lock acquisition in handler.go (the message lock), as opposed to channel.go's write lock
func isMsgLock(point string) bool {
	if !strings.HasSuffix(point, ".lock") {
		return false
	}
	switch strings.TrimSuffix(point, ".lock") {
	case "write1", "Writev", "CtxWrite1", "CtxWritev", "Write1":
		return false
	}
	return true
}

func printC09(sc *c09Scenario, frames [][][]byte, c *rt.Controller, tr *mock.Transport) {
	emit("C09 cfg %d %d %s nb=%d", b2i(sc.sync), sc.qcap, sc.pipeline, b2i(sc.nb))
	for ti, ms := range sc.threads {
		ss := make([]string, len(ms))
		for i, m := range ms {
			ss[i] = m.String()
			emit("C09 msg T%d %d %s %s", ti+1, i, m.kind, hex.EncodeToString(frames[ti][i]))
		}
		emit("C09 thr T%d %s", ti+1, strings.Join(ss, " "))
	}
	for _, s := range c.Steps {
		// only what the monitor uses: lock acquisitions, call boundaries
		if isMsgLock(s.Point) || len(s.Events) > 0 {
			var evs []string
			for _, e := range s.Events {
				if strings.HasPrefix(e, "begin:") || strings.HasPrefix(e, "ret:") {
					evs = append(evs, e)
				}
			}
			if isMsgLock(s.Point) || len(evs) > 0 {
				emit("C09 step %s %s %d %s", s.Tid, s.Point, s.Case, strings.Join(evs, " "))
			}
		}
	}
	emit("C09 wire %s", hexOrDash(tr.Written()))
	p := strings.Join(c.Parked, ",")
	if p == "" {
		p = "-"
	}
	emit("C09 end %s %s steps=%d", c.End, p, len(c.Steps))
}

func runC09(seed int64, count, scheds, dfsBound, dfsCap int) {
	rng := rand.New(rand.NewSource(seed))
	for i := 0; i < count && rt.StuckTotal < 3; i++ {
		sc := genC09(rng)
		frames := make([][][]byte, len(sc.threads))
		for ti, ms := range sc.threads {
			for _, m := range ms {
				frames[ti] = append(frames[ti], c09Frame(sc.pipeline, m))
			}
		}
		if dfsBound > 0 {
			n := 0
			var last *mock.Transport
			exploreGeneric(func(st rt.Strategy) *rt.Controller {
				c, tr := runC09Scenario(sc, st)
				last = tr
				return c
			}, dfsBound, dfsCap, func(c *rt.Controller) {
				emit("#case C09-%d-dfs%d", i, n)
				emit("C09 new")
				printC09(sc, frames, c, last)
				n++
			})
			continue
		}
		for s := 0; s < scheds && rt.StuckTotal < 3; s++ {
			st := &rt.Random{State: uint64(seed)*1000003 + uint64(i)*7919 + uint64(s)*104729 + 1, Stickiness: []int{0, 50, 80, 95}[s%4]}
			c, tr := runC09Scenario(sc, st)
			emit("#case C09-%d-r%d", i, s)
			emit("C09 new")
			printC09(sc, frames, c, tr)
		}
	}
}
