package main

import (
	"context"
	"errors"
	"fmt"
	"math/rand"
	"strings"

	netty "github.com/go-netty/go-netty"
	"github.com/go-netty/go-netty/transport"
	"nvharness/mock"
	"nvharness/rt"
)

// C13: the real bootstrap (instrumented bootstrap.go / holder.go / channel.go) over a mock transport
// factory, under the cooperative controller: Listen / Async / accepted connections / Listener.Close /
// Shutdown placed at every scheduling point.

type mockAcceptor struct {
	f       *mockFactory
	k       int // url number
	n       int // creation index (1-based): the acceptor's identity in events
	pending []*mock.Transport
	closed  bool
}

func (a *mockAcceptor) Accept() (transport.Transport, error) {
	a.f.c.Await(fmt.Sprintf("acceptor%d.accept", a.n), func() bool { return a.closed || len(a.pending) > 0 })
	if a.closed {
		a.f.c.Emit("acc:fail:%d", a.n)
		return nil, errors.New("mock acceptor closed")
	}
	t := a.pending[0]
	a.pending = a.pending[1:]
	a.f.c.Emit("acc:accept:%d:%d", a.n, a.f.connID(t))
	return t, nil
}

func (a *mockAcceptor) Close() error {
	if !a.closed {
		a.closed = true
		a.f.c.Emit("acc:close:%d", a.n)
	} else {
		a.f.c.Emit("acc:reclose:%d", a.n)
	}
	if a.f.closeErr { // the socket is closed all the same; the error is what a transport may report on top
		return errors.New("mock acceptor: close reported an error")
	}
	return nil
}

type mockFactory struct {
	c       *rt.Controller
	accs    map[int]*mockAcceptor // latest acceptor per url
	all     []*mockAcceptor
	nconn   int
	trs     []*mock.Transport
	syncRet map[int]bool
	closeErr bool       // Acceptor.Close reports an error
	refuse  map[int]int // url -> number of Listen calls of the factory that still fail (address in use …)
}

func (f *mockFactory) connID(t transport.Transport) int {
	for i, x := range f.trs {
		if transport.Transport(x) == t {
			return i + 1
		}
	}
	return 0
}

func (f *mockFactory) Schemes() transport.Schemes { return transport.Schemes{"mock"} }
func (f *mockFactory) Connect(o *transport.Options) (transport.Transport, error) {
	f.nconn++
	t := mock.NewTransport()
	id := f.nconn
	t.Block = func(ready func() bool) { f.c.Await(fmt.Sprintf("tr%d.read", id), ready) }
	t.OnCall = func(call mock.Call) {
		if call.Op == "close" {
			f.c.Emit("tr:close:%d", id)
		}
	}
	f.trs = append(f.trs, t)
	f.c.Emit("cli:connect:%d", id)
	return t, nil
}
func (f *mockFactory) Listen(o *transport.Options) (transport.Acceptor, error) {
	var k int
	fmt.Sscanf(o.Address.Host, "l%d", &k)
	if f.refuse[k] > 0 {
		f.refuse[k]--
		f.c.Emit("acc:refuse:%d", k)
		return nil, errors.New("mock: address already in use")
	}
	a := &mockAcceptor{f: f, k: k, n: len(f.all) + 1}
	f.accs[k] = a
	f.all = append(f.all, a)
	f.c.Emit("acc:new:%d", a.n)
	return a, nil
}

// blocking reader: the first inbound handler reads from the transport (what a frame codec does)
type blockingReader struct{ c *rt.Controller }

func (b blockingReader) HandleRead(ctx netty.InboundContext, m netty.Message) {
	tr := m.(transport.Transport)
	buf := make([]byte, 1)
	if _, err := tr.Read(buf); err != nil {
		panic(err)
	}
}

type lifeProbe struct {
	c         *rt.Controller
	cid       *int
	handshake bool // the active handler waits for a greeting of the peer (which never comes, or a hang-up)
	panicInactive bool // the inactive handler panics (cleanup code gone wrong)
}

func (p lifeProbe) HandleActive(ctx netty.ActiveContext) {
	p.c.Emit("active:%d", ctx.Channel().ID())
	if p.handshake {
		buf := make([]byte, 1)
		if _, err := ctx.Channel().Transport().Read(buf); err != nil {
			return // closed or hung up during the handshake
		}
	}
	ctx.HandleActive()
}
func (p lifeProbe) HandleInactive(ctx netty.InactiveContext, ex netty.Exception) {
	p.c.Emit("inactive:%d", ctx.Channel().ID())
	if p.panicInactive {
		panic("nv-inactive-handler-panic")
	}
	ctx.HandleInactive(ex)
}
func (p lifeProbe) HandleException(ctx netty.ExceptionContext, ex netty.Exception) {
	ctx.HandleException(ex) // forward to the tail: unhandled read failures close the channel
}

type c13Op struct {
	kind string // listen | flisten (the factory refuses once, Async is retried on the same listener) | relisten | dial | waitdial | hangup | lclose | shutdown
	k    int
}

type c13Scenario struct {
	threads       [][]c13Op
	handshake     bool
	panicInactive bool
	closeErr      bool
}

func (o c13Op) String() string {
	if o.kind == "shutdown" {
		return "shutdown"
	}
	return fmt.Sprintf("%s:%d", o.kind, o.k)
}

func genC13(rng *rand.Rand) *c13Scenario {
	sc := &c13Scenario{handshake: rng.Intn(4) == 0, panicInactive: rng.Intn(5) == 0, closeErr: rng.Intn(5) == 0}
	nl := 1 + rng.Intn(2)
	var t1 []c13Op
	for k := 0; k < nl; k++ {
		if rng.Intn(5) == 0 {
			t1 = append(t1, c13Op{"flisten", k})
		} else {
			t1 = append(t1, c13Op{"listen", k})
		}
	}
	sc.threads = append(sc.threads, t1)
	var t2 []c13Op
	nd := rng.Intn(3)
	for i := 0; i < nd; i++ {
		if rng.Intn(3) == 0 { // an outgoing connection of the same bootstrap, from a goroutine of its own (Connect returns only after activation)
			sc.threads = append(sc.threads, []c13Op{{"connect", 0}})
			continue
		}
		t2 = append(t2, c13Op{"dial", rng.Intn(nl)})
		if rng.Intn(4) == 0 {
			t2 = append(t2, c13Op{"hangup", 0})
		}
	}
	if len(t2) > 0 {
		sc.threads = append(sc.threads, t2)
	}
	t3 := []c13Op{{"shutdown", 0}}
	switch rng.Intn(6) {
	case 0:
		t3 = append([]c13Op{{"lclose", rng.Intn(nl)}}, t3...)
	case 1: // a user Close racing Shutdown from another goroutine
		sc.threads = append(sc.threads, []c13Op{{"lclose", rng.Intn(nl)}})
	case 2: // Close, reuse the url, Close the old listener again, then Shutdown
		k := rng.Intn(nl)
		t3 = append([]c13Op{{"lclose", k}, {"relisten", k}, {"lclose", k}}, t3...)
	}
	if rng.Intn(6) == 0 { // "context done, then the deferred Shutdown()"
		t3 = append([]c13Op{{"pcancel", 0}}, t3...)
	}
	if nd > 0 && rng.Intn(3) > 0 { // let connections arrive first, so that Shutdown overlaps accept / activation / reads
		t3 = append([]c13Op{{"waitdial", 1 + rng.Intn(nd)}}, t3...)
	}
	if rng.Intn(5) == 0 { // a listener created after (or while) Shutdown runs
		t3 = append(t3, c13Op{"listen", nl})
	}
	if rng.Intn(6) == 0 { // … or an outgoing connection
		t3 = append(t3, c13Op{"connect", 0})
	}
	sc.threads = append(sc.threads, t3)
	return sc
}

func runC13Scenario(sc *c13Scenario, strat rt.Strategy) *rt.Controller {
	c := rt.New()
	c.MaxStep = 4000
	netty.NvRT = c
	defer func() { netty.NvRT = nil }()
	f := &mockFactory{c: c, accs: map[int]*mockAcceptor{}, syncRet: map[int]bool{}, refuse: map[int]int{}, closeErr: sc.closeErr}
	parent, parentCancel := context.WithCancel(context.Background())
	defer parentCancel()
	bs := netty.NewBootstrap(
		netty.WithContext(parent),
		netty.WithTransport(f),
		netty.WithExecutor(ctlExec{c}),
		netty.WithChannel(netty.NewChannel()),
		netty.WithChildInitializer(func(ch netty.Channel) {
			c.Emit("chan:%d:%d", ch.ID(), f.connID(ch.Transport()))
			ch.Pipeline().AddLast(blockingReader{c}, lifeProbe{c: c, handshake: sc.handshake, panicInactive: sc.panicInactive})
		}),
		netty.WithClientInitializer(func(ch netty.Channel) {
			c.Emit("chan:%d:%d", ch.ID(), f.connID(ch.Transport()))
			ch.Pipeline().AddLast(blockingReader{c}, lifeProbe{c: c, handshake: sc.handshake, panicInactive: sc.panicInactive})
		}),
	)
	listeners := map[int]netty.Listener{} // the FIRST listener object created for url k (closed twice by the reuse scenario)
	gen := map[int]int{}
	hung := 0
	for ti, ops := range sc.threads {
		ops := ops
		c.Go(fmt.Sprintf("T%d", ti+1), func() {
			for i, op := range ops {
				if i > 0 {
					c.Yield("call")
				}
				c.Emit("begin:%d:%s", i, op.String())
				switch op.kind {
				case "listen", "relisten", "flisten":
					k := op.k
					if op.kind == "flisten" {
						f.refuse[k] = 1
					}
					g := gen[k]
					gen[k]++
					var l netty.Listener
					func() {
						defer func() {
							if r := recover(); r != nil {
								c.Emit("listen:panic:%d", k)
							}
						}()
						l = bs.Listen(fmt.Sprintf("mock://l%d:1", k))
					}()
					if l == nil {
						break
					}
					if g == 0 {
						listeners[k] = l
					}
					c.Emit("listener:%d:%d@%p", k, g, l)
					var done func(err error)
					retried := false
					done = func(err error) {
						e := "other"
						switch {
						case err == nil:
							e = "nil"
						case errors.Is(err, netty.ErrServerClosed):
							e = "closed"
						}
						c.Emit("sync:ret:%d:%d:%s", k, g, e)
						if op.kind == "flisten" && e == "other" && !retried {
							retried = true
							l.Async(done) // the address was busy: try again on the same listener
							return
						}
						f.syncRet[k] = true
					}
					l.Async(done)
				case "dial":
					k := op.k
					c.Await("dial", func() bool { a := f.accs[k]; return (a != nil && !a.closed) || f.syncRet[k] })
					if a := f.accs[k]; a != nil && !a.closed {
						f.nconn++
						t := mock.NewTransport()
						id := f.nconn
						t.Block = func(ready func() bool) { c.Await(fmt.Sprintf("tr%d.read", id), ready) }
						t.OnCall = func(call mock.Call) {
							if call.Op == "close" {
								c.Emit("tr:close:%d", id)
							}
						}
						f.trs = append(f.trs, t)
						a.pending = append(a.pending, t)
						c.Emit("dial:%d:%d", k, id)
					} else {
						c.Emit("dial:%d:refused", k)
					}
				case "connect":
					if _, err := bs.Connect("mock://c0:1"); err != nil {
						c.Emit("connect:err")
					}
				case "waitdial":
					n := op.k
					c.Await("waitdial", func() bool {
						if f.nconn >= n {
							return true
						}
						for k := 0; k < 4; k++ { // all listeners gone: the dials will be refused
							if f.syncRet[k] {
								return true
							}
						}
						return false
					})
				case "hangup":
					if hung < len(f.trs) {
						f.trs[hung].EndOfStream(nil)
						hung++
						c.Emit("hangup:%d", hung)
					}
				case "lclose":
					if l := listeners[op.k]; l != nil {
						l.Close()
					}
				case "pcancel": // the context the bootstrap was created with ends (the application is going down); Shutdown follows
					c.Emit("pcancel")
					parentCancel()
				case "shutdown":
					escaped := false
					func() {
						defer func() {
							if r := recover(); r != nil {
								escaped = true
							}
						}()
						bs.Shutdown()
					}()
					if escaped {
						c.Emit("shutdown:panic")
						break
					}
					ctxDone := 0
					if bs.Context().Err() != nil {
						ctxDone = 1
					}
					c.Emit("shutdown:ret:%d", ctxDone)
				}
				c.Emit("ret:%d", i)
			}
		})
	}
	c.Run(strat)
	// terminal observations
	for _, a := range f.all {
		if !a.closed {
			c.Parked = append(c.Parked, fmt.Sprintf("openacceptor%d", a.n))
		}
	}
	return c
}

func printC13(sc *c13Scenario, c *rt.Controller) {
	emit("C13 cfg handshake=%d panicinactive=%d", b2i(sc.handshake), b2i(sc.panicInactive))
	for ti, ops := range sc.threads {
		ss := make([]string, len(ops))
		for i, o := range ops {
			ss[i] = o.String()
		}
		emit("C13 thr T%d %s", ti+1, strings.Join(ss, " "))
	}
	// listener objects are named by their address in labels and events: canonicalise to @p1, @p2, ...
	// in order of first appearance (deterministic for a given schedule)
	ptrs := map[string]string{}
	canon := func(x string) string {
		i := strings.Index(x, "@0x")
		if i < 0 {
			return x
		}
		j := i + 3
		for j < len(x) && strings.IndexByte("0123456789abcdef", x[j]) >= 0 {
			j++
		}
		p, ok := ptrs[x[i:j]]
		if !ok {
			p = fmt.Sprintf("@p%d", len(ptrs)+1)
			ptrs[x[i:j]] = p
		}
		return x[:i] + p + x[j:]
	}
	for _, s := range c.Steps {
		evs := make([]string, len(s.Events))
		for i, e := range s.Events {
			evs[i] = canon(e)
		}
		emit("C13 step %s %s %d %s", s.Tid, canon(s.Point), s.Case, strings.Join(evs, " "))
	}
	p := strings.Join(c.Parked, ",")
	if p == "" {
		p = "-"
	}
	emit("C13 end %s %s", c.End, p)
}

func runC13(seed int64, count, scheds, dfsBound, dfsCap int) {
	rng := rand.New(rand.NewSource(seed))
	for i := 0; i < count && rt.StuckTotal < 3; i++ {
		sc := genC13(rng)
		if dfsBound > 0 {
			n := 0
			exploreGeneric(func(st rt.Strategy) *rt.Controller { return runC13Scenario(sc, st) }, dfsBound, dfsCap, func(c *rt.Controller) {
				emit("#case C13-%d-dfs%d", i, n)
				emit("C13 new")
				printC13(sc, c)
				n++
			})
			continue
		}
		for s := 0; s < scheds && rt.StuckTotal < 3; s++ {
			st := &rt.Random{State: uint64(seed)*1000003 + uint64(i)*7919 + uint64(s)*104729 + 1, Stickiness: []int{0, 50, 80, 95}[s%4]}
			c := runC13Scenario(sc, st)
			emit("#case C13-%d-r%d", i, s)
			emit("C13 new")
			printC13(sc, c)
		}
	}
}
