package main

import (
	"context"
	"errors"
	"fmt"
	"io"
	"math/rand"
	"net"
	"strings"

	netty "github.com/go-netty/go-netty"
	"nvharness/mock"
	"nvharness/rt"
)

// C05 (read-loop half): one served channel with its real read loop under the controller. Observable
// lifecycle events (active begin/end, hand-out, read begin/end, inactive, Close calls) are followed
// by the acceptor of Model/Life.lean.

type lifeOp struct {
	kind string // feed | eof | failnet | failto | cl | wait
	err  string
}

func (o lifeOp) String() string {
	if o.kind == "cl" {
		return "cl:" + o.err
	}
	return o.kind
}

type lifeScenario struct {
	async         bool
	closeInActive bool // the active handler closes the channel
	closeInRead   int  // the read handler closes the channel during its k-th read (0 = never)
	panicInActive bool // the active handler panics (with a string value)
	swallow       bool // a user exception handler swallows the exception of the active panic
	panicInactive bool // the inactive handler panics after it was called
	swallowAll    bool // the user exception handler only logs: every exception is consumed
	failClose     bool // transport.Close reports an error (the transport is closed all the same)
	threads       [][]lifeOp
}

var errNetFail error = &net.OpError{Op: "read", Err: errors.New("connection reset")}

func lifeErrClass(err error) string {
	switch {
	case err == nil:
		return "nil"
	case strings.Contains(err.Error(), "active-panic"):
		return "activepanic"
	case errors.Is(err, io.EOF):
		return "eof"
	case errors.Is(err, errE1):
		return "e1"
	case errors.Is(err, errE2):
		return "e2"
	case errors.Is(err, mock.ErrClosed):
		return "trclosed"
	}
	var ne net.Error
	if errors.As(err, &ne) {
		if ne.Timeout() {
			return "to"
		}
		return "net"
	}
	return "other"
}

type lifeHead struct {
	c  *rt.Controller
	sc *lifeScenario
	n  int
}

func (h *lifeHead) HandleActive(ctx netty.ActiveContext) {
	h.c.Emit("active:b")
	if h.sc.panicInActive {
		h.c.Emit("active:p")
		panic("active-panic")
	}
	if h.sc.closeInActive {
		h.c.Emit("closecall:in:e1")
		ctx.Channel().Close(errE1)
		h.c.Emit("closeret:in")
		// the Close call has returned: a write issued now must fail, whatever state the activation is in
		_, werr := ctx.Channel().Write1([]byte{7})
		h.c.Emit("wafter:%s", errClass(werr))
	}
	ctx.HandleActive()
	h.c.Emit("active:e")
}

func (h *lifeHead) HandleRead(ctx netty.InboundContext, m netty.Message) {
	h.n++
	h.c.Emit("read:b")
	tr := m.(interface{ Read([]byte) (int, error) })
	buf := make([]byte, 1)
	if _, err := tr.Read(buf); err != nil {
		h.c.Emit("read:e:fail:%s", lifeErrClass(err))
		if errors.Is(err, mock.ErrClosed) || !ctx.Channel().IsActive() {
			// reads on a transport that is already closed - or failing reads of a channel somebody is in the middle of
			// closing, whose exception is dropped - fail at once: the loop spins until the closer has cancelled the context. A fair scheduler lets the closer run; tell the controller that this goroutine is only polling.
			h.c.Sleep("read.closed")
		}
		panic(err)
	}
	if h.sc.closeInRead == h.n {
		h.c.Emit("closecall:in:e2")
		ctx.Channel().Close(errE2)
		h.c.Emit("closeret:in")
	}
	h.c.Emit("read:e:ok")
}

func (h *lifeHead) HandleInactive(ctx netty.InactiveContext, ex netty.Exception) {
	h.c.Emit("inactive:%s", lifeErrClass(ex))
	if h.sc.panicInactive {
		panic("inactive-panic")
	}
	ctx.HandleInactive(ex)
}

// exception events are forwarded to the tail, which closes the channel (default handling), unless the
// scenario has a user handler that swallows the active handler's panic
type lifeExc struct {
	c  *rt.Controller
	sc *lifeScenario
}

func (h lifeExc) HandleException(ctx netty.ExceptionContext, ex netty.Exception) {
	cls := lifeErrClass(ex)
	if strings.Contains(ex.Error(), "active-panic") {
		cls = "activepanic"
	}
	h.c.Emit("exc:%s", cls)
	if cls == "activepanic" && h.sc.swallow {
		return
	}
	if h.sc.swallowAll {
		return
	}
	ctx.HandleException(ex)
}

func genLife(rng *rand.Rand) *lifeScenario {
	sc := &lifeScenario{async: rng.Intn(2) == 0}
	switch rng.Intn(10) {
	case 0:
		sc.closeInActive = true
	case 1, 2:
		sc.closeInRead = 1 + rng.Intn(2)
	case 3, 4:
		sc.panicInActive = true
		sc.swallow = rng.Intn(2) == 0
	}
	sc.panicInactive = rng.Intn(4) == 0
	// the feeder: some successful reads, then possibly a read-side failure
	var t1 []lifeOp
	for i := 0; i < rng.Intn(3); i++ {
		t1 = append(t1, lifeOp{kind: "feed"})
	}
	switch rng.Intn(6) {
	case 0:
		t1 = append(t1, lifeOp{kind: "eof"})
	case 1:
		t1 = append(t1, lifeOp{kind: "failnet"})
	case 2:
		t1 = append(t1, lifeOp{kind: "failto"})
	case 3: // a broken connection reported by a decoder that adds context to the error (%w)
		t1 = append(t1, lifeOp{kind: "failwrapnet"})
	}
	if n := len(t1); n > 0 && (t1[n-1].kind == "failnet" || t1[n-1].kind == "failwrapnet") && !sc.panicInActive && rng.Intn(2) == 0 {
		sc.swallowAll = true // a logging-only exception handler: the broken transport must close the channel all the same
	}
	sc.failClose = rng.Intn(6) == 0
	if len(t1) > 0 {
		sc.threads = append(sc.threads, t1)
	}
	for k := 0; k < rng.Intn(3); k++ {
		sc.threads = append(sc.threads, []lifeOp{{kind: "cl", err: []string{"e1", "e2", "nil"}[rng.Intn(3)]}})
	}
	return sc
}

type exitExec struct{ c *rt.Controller }

func (e exitExec) Exec(a netty.Action) {
	name := e.c.FreshName("S")
	e.c.Emit("spawn:%s", name)
	e.c.Go(name, func() {
		a()
		e.c.Emit("exit:%s", name)
	})
}

func runLifeScenario(sc *lifeScenario, strat rt.Strategy) *rt.Controller {
	c := rt.New()
	c.MaxStep = 3000
	netty.NvRT = c
	defer func() { netty.NvRT = nil }()
	tr := mock.NewTransport()
	tr.Block = func(ready func() bool) { c.Await("tr.read", ready) }
	if sc.failClose {
		tr.CloseErr = errors.New("close_notify: broken pipe")
	}
	tr.OnCall = func(call mock.Call) {
		if call.Op == "close" {
			c.Emit("tr:close")
		}
	}
	pl := netty.NewPipeline()
	pl.AddLast(&lifeHead{c: c, sc: sc}, lifeExc{c: c, sc: sc})
	var ch netty.Channel
	if sc.async {
		ch = netty.NewAsyncWriteChannel(4, true)(1, context.Background(), pl, tr, exitExec{c})
	} else {
		ch = netty.NewChannel()(1, context.Background(), pl, tr, exitExec{c})
	}
	served := false
	c.Go("H", func() {
		c.Emit("begin:serve")
		pl.ServeChannel(ch)
		served = true
		c.Emit("handout")
	})
	for ti, ops := range sc.threads {
		ops := ops
		c.Go(fmt.Sprintf("T%d", ti+1), func() {
			c.Await("handed", func() bool { return served }) // the channel is only known to others once it was handed out
			for i, op := range ops {
				if i > 0 {
					c.Yield("call")
				}
				switch op.kind {
				case "feed":
					tr.Feed([]byte{1})
					c.Emit("feed")
				case "eof":
					tr.EndOfStream(nil)
					c.Emit("eof")
				case "failnet":
					tr.EndOfStream(errNetFail)
					c.Emit("failnet")
				case "failto":
					tr.EndOfStream(errTO)
					c.Emit("failto")
				case "failwrapnet":
					tr.EndOfStream(fmt.Errorf("frame header: %w", errNetFail))
					c.Emit("failnet")
				case "cl":
					c.Emit("closecall:out:%s", op.err)
					switch op.err {
					case "e1":
						ch.Close(errE1)
					case "e2":
						ch.Close(errE2)
					default:
						ch.Close(nil)
					}
					ia, cd := 0, 0
					if ch.IsActive() {
						ia = 1
					}
					if ch.Context().Err() != nil {
						cd = 1
					}
					c.Emit("closeret:out:%d:%d", ia, cd)
				}
			}
		})
	}
	c.Run(strat)
	return c
}

func printLife(sc *lifeScenario, c *rt.Controller) {
	emit("C05L cfg %d %d %d %d %d %d %d %d", b2i(sc.async), b2i(sc.closeInActive), sc.closeInRead, b2i(sc.panicInActive), b2i(sc.swallow), b2i(sc.panicInactive), b2i(sc.swallowAll), b2i(sc.failClose))
	for ti, ops := range sc.threads {
		ss := make([]string, len(ops))
		for i, o := range ops {
			ss[i] = o.String()
		}
		emit("C05L thr T%d %s", ti+1, strings.Join(ss, " "))
	}
	for _, s := range c.Steps {
		emit("C05L step %s %s %d %s", s.Tid, s.Point, s.Case, strings.Join(s.Events, " "))
	}
	p := strings.Join(c.Parked, ",")
	if p == "" {
		p = "-"
	}
	emit("C05L end %s %s", c.End, p)
}

func runLife(seed int64, count, scheds, dfsBound, dfsCap int) {
	rng := rand.New(rand.NewSource(seed))
	for i := 0; i < count && rt.StuckTotal < 3; i++ {
		sc := genLife(rng)
		if dfsBound > 0 {
			n := 0
			exploreGeneric(func(st rt.Strategy) *rt.Controller { return runLifeScenario(sc, st) }, dfsBound, dfsCap, func(c *rt.Controller) {
				emit("#case C05L-%d-dfs%d", i, n)
				emit("C05L new")
				printLife(sc, c)
				n++
			})
			continue
		}
		for s := 0; s < scheds && rt.StuckTotal < 3; s++ {
			st := &rt.Random{State: uint64(seed)*1000003 + uint64(i)*7919 + uint64(s)*104729 + 1, Stickiness: []int{0, 50, 80, 95}[s%4]}
			c := runLifeScenario(sc, st)
			emit("#case C05L-%d-r%d", i, s)
			emit("C05L new")
			printLife(sc, c)
		}
	}
}
