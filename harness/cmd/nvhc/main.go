// nvhc: controlled-runtime harness. Built with an overlay that replaces /repo/channel.go by the copy
// instrumented by nvinstr and adds zz_nv_rt.go / zz_nv_hooks.go to package netty. Runs small
// concurrent scenarios on the REAL channel under the cooperative controller (package rt) and
// prints, per execution, the scenario and its step trace in the driver's line protocol.
package main

import (
	"bufio"
	"context"
	"encoding/hex"
	"errors"
	"flag"
	"fmt"
	"io"
	"net"
	"os"
	"strings"
	"time"

	netty "github.com/go-netty/go-netty"
	"github.com/go-netty/go-netty/transport"
	"github.com/go-netty/go-netty/utils/pool/pbytes"
	"nvharness/mock"
	"nvharness/rt"
)

var out *bufio.Writer

func emit(format string, a ...interface{}) {
	fmt.Fprintf(out, format, a...)
	out.WriteByte('\n')
}

func hexOrDash(b []byte) string {
	if len(b) == 0 {
		return "-"
	}
	return hex.EncodeToString(b)
}

var errE1 = errors.New("close-error-1")
var errE2 = errors.New("close-error-2")

// a timeout-classified error (net.Error with Timeout() == true)
var errTO error = &net.OpError{Op: "read", Err: os.ErrDeadlineExceeded}

func errClass(err error) string {
	switch {
	case err == nil:
		return "nil"
	case errors.Is(err, errE1):
		return "e1"
	case errors.Is(err, errE2):
		return "e2"
	case err == io.EOF:
		return "eof"
	case err == errTO || errors.Is(err, os.ErrDeadlineExceeded):
		return "to"
	case errors.Is(err, context.Canceled), errors.Is(err, context.DeadlineExceeded):
		return "ctx"
	case err.Error() == "netty: channel closed": // netty.ErrChannelClosed (by text: the symbol does not exist before the fix)
		return "chclosed"
	case errors.Is(err, netty.ErrAsyncNoSpace):
		return "nospace"
	case errors.Is(err, io.ErrShortWrite):
		return "short"
	case errors.Is(err, mock.ErrClosed):
		return "trclosed"
	}
	return "other"
}

// Scenario ------------------------------------------------------------------

type Op struct {
	Kind string   // w1 wv cw1 cwv ww rf cl cx ia mw
	Ctx  string   // live | done | k<n> (cancellable context number n)
	Bufs [][]byte // payload(s)
	Err  string   // cl: nil e1 e2
	N    int      // cx: context number
	Over bool     // overwrite the caller's buffer right after the call returns (C10)
}

func (o Op) String() string {
	hs := make([]string, len(o.Bufs))
	for i, b := range o.Bufs {
		hs[i] = hexOrDash(b)
	}
	p := strings.Join(hs, ",")
	if len(hs) == 0 {
		p = "-"
	}
	ov := ""
	if o.Over {
		ov = "!"
	}
	switch o.Kind {
	case "cl":
		return "cl:" + o.Err
	case "cx":
		return fmt.Sprintf("cx:%d", o.N)
	case "px":
		return "px"
	case "ps":
		return "ps"
	case "ia":
		return "ia"
	case "cw1", "cwv":
		return o.Kind + ov + ":" + o.Ctx + ":" + p
	}
	return o.Kind + ov + ":" + p
}

type Thread struct {
	Name string
	Ops  []Op
}

type Scenario struct {
	Sync    bool
	Qcap    int
	Until   bool
	Threads []Thread
	NCtx    int
	FailAt  int // 1-based index of the transport write/writev call that fails (0 = none)
	Buffered int // > 0: the library's write-buffered transport of this size over a connection under the controller; -1: its unbuffered wrapper
	Big      bool
	Stalled  bool // the peer does not read: transport writes end only when the transport is closed
	Consume  bool // a user handler consumes every exception (the channel's own failure handling must not depend on the tail)
	conn    *ctlConn
}

type consumeExc struct{}

func (consumeExc) HandleException(ctx netty.ExceptionContext, ex netty.Exception) {}

type ctlExec struct {
	c *rt.Controller
}

func (e ctlExec) Exec(a netty.Action) {
	name := e.c.FreshName("S")
	e.c.Emit("spawn:%s", name)
	e.c.Go(name, a)
}

// runScenario executes the scenario once under the strategy and returns the controller.
func runScenario(sc *Scenario, strat rt.Strategy) *rt.Controller {
	c := rt.New()
	netty.NvRT = c
	defer func() { netty.NvRT = nil }()
	tr := mock.NewTransport()
	if sc.FailAt > 0 {
		k := sc.FailAt
		tr.FailWrite = func(n int) error {
			if n == k {
				return errors.New("injected")
			}
			return nil
		}
	}
	if sc.Stalled {
		tr.Stall = func(ready func() bool) { c.Await("tr.stalled", ready) }
	}
	onCall := func(call mock.Call) {
		e := ""
		if call.Err != "" {
			e = "!" + call.Err
		}
		switch call.Op {
		case "write", "writev":
			hs := make([]string, len(call.Bufs))
			for i, b := range call.Bufs {
				hs[i] = hexOrDash(b)
			}
			p := strings.Join(hs, ",")
			if len(hs) == 0 {
				p = "-"
			}
			c.Emit("tr:%s:%s%s", call.Op, p, e)
		default:
			c.Emit("tr:%s%s", call.Op, e)
		}
	}
	tr.OnCall = onCall
	var trx transport.Transport = tr
	if sc.Buffered != 0 {
		sc.conn = &ctlConn{c: c}
		size := sc.Buffered
		if size < 0 {
			size = 0
		}
		trx = &loggedTransport{Transport: transport.NewTransport(sc.conn, 0, size), onCall: onCall}
	}
	pl := netty.NewPipeline()
	var ch netty.Channel
	parent, parentCancel := context.WithCancel(context.Background())
	defer parentCancel()
	if sc.Sync {
		ch = netty.NewChannel()(1, parent, pl, trx, ctlExec{c})
	} else {
		ch = netty.NewAsyncWriteChannel(sc.Qcap, sc.Until)(1, parent, pl, trx, ctlExec{c})
	}
	if sc.Consume {
		pl.AddLast(consumeExc{})
	}
	netty.NvAttach(pl, ch)
	staleWriter := ch.Writer()
	ctxs := make([]context.Context, sc.NCtx)
	cancels := make([]context.CancelFunc, sc.NCtx)
	for i := range ctxs {
		ctxs[i], cancels[i] = context.WithCancel(context.Background())
	}
	doneCtx, dc := context.WithCancel(context.Background())
	dc()
	dlCtx, dlc := context.WithDeadline(context.Background(), time.Now().Add(24*time.Hour))
	defer dlc()
	getCtx := func(s string) context.Context {
		switch {
		case s == "done":
			return doneCtx
		case s == "dl": // live, but carries a (far) deadline
			return dlCtx
		case strings.HasPrefix(s, "k"):
			var n int
			fmt.Sscanf(s, "k%d", &n)
			return ctxs[n]
		}
		return context.Background()
	}
	for _, th := range sc.Threads {
		th := th
		c.Go(th.Name, func() {
			for i, op := range th.Ops {
				if i > 0 {
					c.Yield("call")
				}
				c.Emit("begin:%d:%s", i, op.String())
				cp := make([][]byte, len(op.Bufs))
				for j := range op.Bufs {
					cp[j] = append([]byte(nil), op.Bufs[j]...)
				}
				var n int64
				var err error
				status := func() (st string) {
					defer func() {
						if r := recover(); r != nil {
							st = "panic"
						}
					}()
					switch op.Kind {
					case "w1":
						k, e := ch.Write1(cp[0])
						n, err = int64(k), e
					case "ww":
						k, e := ch.Writer().Write(cp[0])
						n, err = int64(k), e
					case "sw": // through a writer obtained when the channel was created
						k, e := staleWriter.Write(cp[0])
						n, err = int64(k), e
					case "wv":
						n, err = ch.Writev(cp)
					case "cw1":
						k, e := ch.CtxWrite1(getCtx(op.Ctx), cp[0])
						n, err = int64(k), e
					case "cwv":
						n, err = ch.CtxWritev(getCtx(op.Ctx), cp)
					case "cl":
						switch op.Err {
						case "e1":
							ch.Close(errE1)
						case "e2":
							ch.Close(errE2)
						case "to":
							ch.Close(errTO)
						case "eof": // what a peer hang-up closes the channel with
							ch.Close(io.EOF)
						default:
							ch.Close(nil)
						}
					case "cx":
						cancels[op.N]()
					case "px":
						parentCancel()
					case "ia":
						if ch.IsActive() {
							n = 1
						}
					case "mw":
						err = ch.Write(cp[0])
					case "ps":
						// another user of the buffer pool: obtains buffers of every size class, scribbles on them,
						// yields while holding them, scribbles again and gives them back (C10)
						for r, size := range []int{1, 16, 700, 2048, 65536} {
							b := pbytes.Get(size)
							buf := (*b)[:cap(*b)]
							for k := range buf {
								buf[k] = 0xDD
							}
							c.Yield("ps")
							for k := range buf {
								buf[k] = 0xD0 + byte(r)
							}
							pbytes.Put(b)
						}
					}
					return "ok"
				}()
				if op.Over { // C10: the caller reuses its buffer immediately
					for j := range cp {
						for k := range cp[j] {
							cp[j][k] = 0xEE
						}
					}
				}
				if status == "panic" {
					c.Emit("ret:%d:0:panic", i)
				} else {
					c.Emit("ret:%d:%d:%s", i, n, errClass(err))
				}
			}
		})
	}
	c.Run(strat)
	return c
}

func printRun(prop string, sc *Scenario, c *rt.Controller) {
	if sc.Buffered != 0 {
		emit("%s cfg %d %d %d buf%d", prop, b2i(sc.Sync), sc.Qcap, b2i(sc.Until), sc.Buffered)
	} else {
		emit("%s cfg %d %d %d", prop, b2i(sc.Sync), sc.Qcap, b2i(sc.Until))
	}
	if sc.FailAt > 0 {
		emit("%s failwrite %d", prop, sc.FailAt)
	}
	if sc.Stalled {
		emit("%s stalled", prop)
	}
	for _, th := range sc.Threads {
		ops := make([]string, len(th.Ops))
		for i, o := range th.Ops {
			ops[i] = o.String()
		}
		emit("%s thr %s %s", prop, th.Name, strings.Join(ops, " "))
	}
	for _, s := range c.Steps {
		ev := strings.Join(s.Events, " ")
		if len(s.Blocked) > 0 {
			ev = strings.TrimSpace(ev + " blocked=" + strings.Join(s.Blocked, ","))
		}
		emit("%s step %s %s %d %s", prop, s.Tid, s.Point, s.Case, ev)
	}
	p := strings.Join(c.Parked, ",")
	if p == "" {
		p = "-"
	}
	if sc.conn != nil {
		emit("%s conn %s", prop, hexOrDash(sc.conn.bytes()))
	}
	emit("%s end %s %s", prop, c.End, p)
}

func b2i(b bool) int {
	if b {
		return 1
	}
	return 0
}

func main() {
	prop := flag.String("prop", "C01", "property id")
	seed := flag.Int64("seed", 1, "seed")
	count := flag.Int("count", 50, "number of scenarios")
	scheds := flag.Int("scheds", 20, "random schedules per scenario")
	dfs := flag.Int("dfs", 0, "preemption bound for DFS (0 = off)")
	dfsCap := flag.Int("dfscap", 2000, "max executions per scenario in DFS")
	only := flag.Int("only", -1, "execute only the scenario with this index (the generator still runs from the start)")
	any := flag.Bool("dfsany", false, "DFS also explores big scenarios (same scenario numbering as the random mode)")
	flag.Parse()
	dfsAny = *any
	onlyScenario = *only
	out = bufio.NewWriterSize(os.Stdout, 1<<20)
	defer out.Flush()
	if *prop == "C13" {
		runC13(*seed, *count, *scheds, *dfs, *dfsCap)
		return
	}
	if *prop == "C05L" {
		runLife(*seed, *count, *scheds, *dfs, *dfsCap)
		return
	}
	if *prop == "C09" {
		runC09(*seed, *count, *scheds, *dfs, *dfsCap)
		return
	}
	if *prop == "C20" {
		runC20(*seed, *count)
		return
	}
	runProp(*prop, *seed, *count, *scheds, *dfs, *dfsCap)
}
