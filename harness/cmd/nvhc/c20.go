package main

import (
	"context"
	"errors"
	"fmt"
	"math/rand"
	"strings"
	"time"

	netty "github.com/go-netty/go-netty"
	"nvharness/mock"
)

// C20: the real idle handlers (handler.go with package time redirected to a virtual clock by
// nvinstr -time) driven through sequential histories; timer callbacks run when and only when the
// harness fires them (at the deadline or late).

type vtimer struct {
	clk      *vclock
	deadline time.Duration
	armed    bool
	f        func()
}

func (t *vtimer) Reset(d time.Duration) bool {
	was := t.armed
	t.armed = true
	t.deadline = t.clk.now + d
	return was
}
func (t *vtimer) Stop() bool { was := t.armed; t.armed = false; return was }

type vclock struct {
	now    time.Duration
	timers []*vtimer
}

var epoch = time.Unix(1_000_000, 0)

// virtual time is counted in ticks of 100ms (the handlers require idle >= 1s = 10 ticks)
const tick = 100 * time.Millisecond

func (c *vclock) Now() time.Time { return epoch.Add(c.now) }
func (c *vclock) AfterFunc(d time.Duration, f func()) netty.NvTimerHandle {
	t := &vtimer{clk: c, deadline: c.now + d, armed: true, f: f}
	c.timers = append(c.timers, t)
	return t
}

// due returns the armed timer with the earliest deadline, if any.
func (c *vclock) due() *vtimer {
	var best *vtimer
	for _, t := range c.timers {
		if t.armed && (best == nil || t.deadline < best.deadline) {
			best = t
		}
	}
	return best
}

type c20probe struct {
	clk       *vclock
	delay     time.Duration // processing time of the next read/write passing this handler
	events    []string
	excs      int
	panicNext bool
	panicInactive bool
	inactNext func()
	panicWrite   bool   // the handler below the write-idle handler panics (after its processing time)
	during       func() // runs while a read/write is being processed below/behind the idle handler
	panicActive  bool   // the handler behind the idle handler panics in HandleActive
	closeActive  func() // … or closes the channel there (connection limit, failed handshake)
	eventHook    func() // runs inside the handler of the next idle event (a slow handler during which traffic arrives)
	inacts       int    // inactive events seen by the handler behind the idle handler since the last report
}

func (p *c20probe) HandleRead(ctx netty.InboundContext, m netty.Message) {
	p.clk.now += p.delay
	if f := p.during; f != nil {
		p.during = nil
		f()
	}
	ctx.HandleRead(m)
}
func (p *c20probe) HandleWrite(ctx netty.OutboundContext, m netty.Message) {
	p.clk.now += p.delay
	if f := p.during; f != nil {
		p.during = nil
		f()
	}
	if p.panicWrite {
		p.panicWrite = false
		panic("nv-write-handler-panic")
	}
	ctx.HandleWrite(m)
}
func (p *c20probe) HandleEvent(ctx netty.EventContext, ev netty.Event) {
	switch ev.(type) {
	case netty.ReadIdleEvent:
		p.events = append(p.events, fmt.Sprintf("r@%d", int(p.clk.now/tick)))
	case netty.WriteIdleEvent:
		p.events = append(p.events, fmt.Sprintf("w@%d", int(p.clk.now/tick)))
	}
	if f := p.eventHook; f != nil {
		p.eventHook = nil
		f()
	}
	if f := p.inactNext; f != nil {
		p.inactNext = nil
		f()
	}
	if p.panicNext {
		p.panicNext = false
		panic("nv-idle-handler-panic")
	}
}
func (p *c20probe) HandleException(ctx netty.ExceptionContext, ex netty.Exception) { p.excs++ }

type outOnly struct{ p *c20probe }

func (o outOnly) HandleWrite(ctx netty.OutboundContext, m netty.Message) { o.p.HandleWrite(ctx, m) }

type inOnly struct{ p *c20probe }

func (o inOnly) HandleRead(ctx netty.InboundContext, m netty.Message) { o.p.HandleRead(ctx, m) }

type evtOnly struct{ p *c20probe }

func (o evtOnly) HandleEvent(ctx netty.EventContext, ev netty.Event)             { o.p.HandleEvent(ctx, ev) }
func (o evtOnly) HandleException(ctx netty.ExceptionContext, ex netty.Exception) { o.p.HandleException(ctx, ex) }
func (o evtOnly) HandleActive(ctx netty.ActiveContext) {
	if f := o.p.closeActive; f != nil {
		o.p.closeActive = nil
		f()
		return
	}
	if o.p.panicActive {
		o.p.panicActive = false
		panic("nv-active-handler-panic")
	}
	ctx.HandleActive()
}
func (o evtOnly) HandleInactive(ctx netty.InactiveContext, ex netty.Exception) {
	o.p.inacts++
	if o.p.panicInactive {
		o.p.panicInactive = false
		panic("nv-inactive-handler-panic")
	}
	ctx.HandleInactive(ex)
}

func runC20(seed int64, count int) {
	rng := rand.New(rand.NewSource(seed))
	for cs := 0; cs < count; cs++ {
		// every case runs under a watchdog: a call into the idle handler that never returns (a lock held across the
		// delivery of an event, say) must not hang the harness but be reported
		done := make(chan struct{})
		go func() { defer close(done); runC20case(rng, cs) }()
		select {
		case <-done:
		case <-time.After(3 * time.Second):
			emit("C20 hang %d", cs)
			return // the goroutine of the case is lost and shares the generator: stop here
		}
	}
}

func runC20case(rng *rand.Rand, cs int) {
	{
		clk := &vclock{}
		netty.NvClk = clk
		kind := []string{"r", "w"}[rng.Intn(2)]
		idleSec := 1 + rng.Intn(3)
		idle := idleSec * 10 // ticks
		pr := &c20probe{clk: clk}
		pl := netty.NewPipeline()
		tr := mock.NewTransport()
		ch := netty.NewChannel()(int64(cs), context.Background(), pl, tr, nil)
		netty.NvAttach(pl, ch)
		if kind == "r" {
			pl.AddLast(netty.ReadIdleHandler(time.Duration(idleSec)*time.Second), inOnly{pr}, evtOnly{pr})
		} else {
			pl.AddLast(outOnly{pr}, netty.WriteIdleHandler(time.Duration(idleSec)*time.Second), evtOnly{pr})
		}
		emit("#case c20-%d", cs)
		emit("C20 new %s %d", kind, idle)
		active := false
		sec := func() int { return int(clk.now / tick) }
		inactive := func() {
			if rng.Intn(4) == 0 {
				pr.panicInactive = true
			}
			netty.NvInvoke(ch, func() { pl.FireChannelInactive(errors.New("bye")) })
			pr.panicInactive = false
		}
		report := func(op string, t int, extra string) {
			ev := strings.Join(pr.events, ",")
			if ev == "" {
				ev = "-"
			}
			if op == "inactive" || op == "activeinact" || op == "fireinact" || op == "inactonly" {
				extra = fmt.Sprintf("inact=%d", pr.inacts) // how often the handler behind the idle handler saw the inactive event
			}
			emit("C20 op %s %d %s ev=%s exc=%d", op, t, extra, ev, pr.excs)
			pr.events = nil
			pr.excs = 0
			pr.inacts = 0
		}
		nops := 3 + rng.Intn(14)
		for i := 0; i < nops; i++ {
			if rng.Intn(3) == 0 {
				clk.now += time.Duration(rng.Intn(2)) * tick // a burst: this operation follows the previous one at once or one tick later
			} else {
				clk.now += time.Duration(rng.Intn(idle+5)) * tick
			}
			switch r := rng.Intn(12); {
			case r < 2 && !active:
				switch rng.Intn(6) {
				case 0: // a handler behind the idle handler refuses the connection inside HandleActive
					pr.closeActive = inactive
					netty.NvInvoke(ch, func() { pl.FireChannelActive() })
					report("activeinact", sec(), "-")
				case 1: // … or panics there; the exception is consumed, the channel stays open
					pr.panicActive = true
					netty.NvInvoke(ch, func() { pl.FireChannelActive() })
					active = true
					report("active", sec(), "panic")
				default:
					pl.FireChannelActive()
					active = true
					report("active", sec(), "-")
				}
			case r < 6:
				if rng.Intn(3) == 0 { // burst: a message 1 tick after the previous operation
					clk.now += tick
				}
				pr.delay = time.Duration(rng.Intn(4)) * tick
				if rng.Intn(5) == 0 {
					pr.delay = time.Duration(rng.Intn(idle+3)) * tick // a slow handler / a peer that is not reading
				}
				d := int(pr.delay / tick)
				t0 := sec()
				// 1/3: the timer that comes due while the message is being processed fires right then
				firedAt, firedEv, firedExc := -1, "", 0
				if rng.Intn(3) == 0 {
					pr.during = func() {
						t := clk.due()
						if t == nil || clk.now < t.deadline {
							return
						}
						saved, savedExc := pr.events, pr.excs
						pr.events, pr.excs = nil, 0
						t.armed = false
						t.f()
						firedAt, firedEv, firedExc = sec(), strings.Join(pr.events, ","), pr.excs
						pr.events, pr.excs = saved, savedExc
					}
				}
				emitFired := func() {
					if firedAt >= 0 {
						if firedEv == "" {
							firedEv = "-"
						}
						emit("C20 op fire %d - ev=%s exc=%d", firedAt, firedEv, firedExc)
					}
				}
				if kind == "r" {
					pl.FireChannelRead("m")
					emitFired()                                    // the callback ran before the read was recorded
					report("touch", sec(), fmt.Sprintf("d=%d", d)) // read-idle records after forwarding: at t0+d
				} else {
					if rng.Intn(5) == 0 {
						pr.panicWrite = true // the write fails below the idle handler; the exception is consumed
					}
					netty.NvInvoke(ch, func() { pl.FireChannelWrite([]byte("w")) })
					pr.panicWrite = false
					report("touch", t0, fmt.Sprintf("d=%d", d)) // write-idle records before forwarding: at t0
					emitFired()
				}
				pr.delay = 0
				pr.during = nil
			case r < 10:
				// fire the due timer: exactly at its deadline, or late
				t := clk.due()
				if t == nil {
					continue
				}
				if clk.now < t.deadline {
					clk.now = t.deadline
				}
				if rng.Intn(3) == 0 {
					clk.now += time.Duration(rng.Intn(12)) * tick
				}
				op := "fire"
				switch rng.Intn(6) {
				case 0:
					pr.panicNext = true
				case 1:
					op = "fireinact"
					pr.inactNext = inactive
				}
				touched := -1
				nestedAt, nestedEv := -1, ""
				if op == "fire" && !pr.panicNext && rng.Intn(4) == 0 {
					// the idle-event handler takes a while, and a message passes the idle handler meanwhile
					overlap := rng.Intn(2) == 0
					pr.eventHook = func() {
						clk.now += time.Duration(rng.Intn(3)) * tick
						touched = sec()
						if kind == "r" {
							pl.FireChannelRead("m")
						} else {
							netty.NvInvoke(ch, func() { pl.FireChannelWrite([]byte("w")) })
						}
						if overlap {
							// … and the handler is still busy (a heartbeat blocked on a peer that stopped reading) when the timer,
							// re-armed by that message, comes due again: the runtime runs the callback on another goroutine
							if t2 := clk.due(); t2 != nil {
								if clk.now < t2.deadline {
									clk.now = t2.deadline
								}
								n0 := len(pr.events)
								t2.armed = false
								t2.f()
								nestedAt = sec()
								nestedEv = strings.Join(pr.events[n0:], ",")
								pr.events = pr.events[:n0]
							}
						}
					}
				}
				t.armed = false // time.AfterFunc timers fire once
				firedAt := sec()
				t.f()
				pr.eventHook = nil
				if op == "fireinact" {
					if pr.inactNext != nil { // no event was delivered: inactive arrives right after the callback
						pr.inactNext = nil
						inactive()
					}
					active = false
				}
				pr.panicNext = false
				if touched >= 0 {
					report(op, firedAt, "-") // the check ran (and the event was delivered) before the message passed
					report("touch", touched, "d=0")
					if nestedAt >= 0 {
						if nestedEv == "" {
							nestedEv = "-"
						}
						emit("C20 op fire %d - ev=%s exc=0", nestedAt, nestedEv)
					}
				} else {
					report(op, sec(), "-")
				}
			default:
				if active {
					inactive()
					active = false
					report("inactive", sec(), "-")
				} else if rng.Intn(3) == 0 {
					// the channel is closed before the active event ever reached the idle handler (a handler in front of it
					// refused the connection): the inactive event passes an idle handler that holds no timer
					inactive()
					report("inactonly", sec(), "-")
				}
			}
		}
		// finally: after inactive no timer may remain armed; an active handler always has one pending
		if !active {
			if t := clk.due(); t != nil {
				emit("C20 op leaked %d - ev=- exc=0", sec())
			}
		} else if clk.due() == nil {
			emit("C20 op notimer %d - ev=- exc=0", sec())
		}
		netty.NvClk = nil
	}
}
