package main

import (
	"net"
	"sync"
	"time"

	"github.com/go-netty/go-netty/transport"
	"nvharness/mock"
	"nvharness/rt"
)

// Buffered scenarios: the channel writes to the library's own write-buffered transport
// (transport.NewTransport(conn, 0, n): a bufio.Writer that is not safe for concurrent use) over a
// connection under the controller. Every connection-level write is a scheduling point, so that two
// goroutines inside the transport at the same time (a sender that flushes after it gave up its role
// and the next sender) interleave as they would on a slow peer. The transport-level calls are logged
// exactly as the mock transport logs them; the connection-level byte stream is reported at the end.

type ctlConn struct {
	c   *rt.Controller
	mu  sync.Mutex
	log []byte
}

func (k *ctlConn) Write(p []byte) (int, error) {
	k.c.Yield("conn.write")
	k.mu.Lock()
	k.log = append(k.log, p...)
	k.mu.Unlock()
	return len(p), nil
}
func (k *ctlConn) bytes() []byte {
	k.mu.Lock()
	defer k.mu.Unlock()
	return append([]byte(nil), k.log...)
}
func (k *ctlConn) Read(p []byte) (int, error)         { select {} }
func (k *ctlConn) Close() error                       { return nil }
func (k *ctlConn) LocalAddr() net.Addr                { return nil }
func (k *ctlConn) RemoteAddr() net.Addr               { return nil }
func (k *ctlConn) SetDeadline(time.Time) error        { return nil }
func (k *ctlConn) SetReadDeadline(time.Time) error    { return nil }
func (k *ctlConn) SetWriteDeadline(time.Time) error   { return nil }

type loggedTransport struct {
	transport.Transport
	mu     sync.Mutex
	closed bool
	onCall func(mock.Call)
}

func (l *loggedTransport) rec(c mock.Call) {
	if l.onCall != nil {
		l.onCall(c)
	}
}

func (l *loggedTransport) isClosed() bool {
	l.mu.Lock()
	defer l.mu.Unlock()
	return l.closed
}

func (l *loggedTransport) Write(p []byte) (int, error) {
	if l.isClosed() {
		l.rec(mock.Call{Op: "write", Err: "closed"})
		return 0, mock.ErrClosed
	}
	l.rec(mock.Call{Op: "write", Bufs: [][]byte{append([]byte(nil), p...)}})
	return l.Transport.Write(p)
}

func (l *loggedTransport) Writev(bufs transport.Buffers) (int64, error) {
	if l.isClosed() {
		l.rec(mock.Call{Op: "writev", Err: "closed"})
		return 0, mock.ErrClosed
	}
	var cp [][]byte
	for _, b := range bufs {
		cp = append(cp, append([]byte(nil), b...))
	}
	l.rec(mock.Call{Op: "writev", Bufs: cp})
	return l.Transport.Writev(bufs)
}

func (l *loggedTransport) Flush() error {
	l.rec(mock.Call{Op: "flush"})
	if l.isClosed() {
		return nil
	}
	return l.Transport.Flush()
}

func (l *loggedTransport) Close() error {
	l.mu.Lock()
	l.closed = true
	l.mu.Unlock()
	l.rec(mock.Call{Op: "close"})
	return l.Transport.Close()
}
