package mock

import (
	"errors"
	"sync"

	"github.com/go-netty/go-netty/transport"
)

// Factory is a thread-safe in-memory transport factory for uncontrolled (real goroutine) runs:
// scheme "mock"; Listen creates an Acceptor named by the url's host, Dial hands it a new Transport,
// Connect returns a fresh Transport.
type Factory struct {
	mu   sync.Mutex
	accs map[string]*Acceptor
	All  []*Transport
}

func NewFactory() *Factory { return &Factory{accs: map[string]*Acceptor{}} }

func (f *Factory) Schemes() transport.Schemes { return transport.Schemes{"mock"} }

func (f *Factory) newTransport() *Transport {
	t := NewTransport()
	f.mu.Lock()
	f.All = append(f.All, t)
	f.mu.Unlock()
	return t
}

func (f *Factory) Connect(o *transport.Options) (transport.Transport, error) {
	if err := o.Context.Err(); err != nil {
		return nil, err
	}
	return f.newTransport(), nil
}

func (f *Factory) Listen(o *transport.Options) (transport.Acceptor, error) {
	a := &Acceptor{conns: make(chan *Transport, 64), closed: make(chan struct{}), broken: make(chan struct{})}
	f.mu.Lock()
	f.accs[o.Address.Host] = a
	f.mu.Unlock()
	return a, nil
}

// Dial offers a new connection to the acceptor listening on host; false if there is none (yet) or it is closed.
func (f *Factory) Dial(host string) (*Transport, bool) {
	f.mu.Lock()
	a := f.accs[host]
	f.mu.Unlock()
	if a == nil {
		return nil, false
	}
	t := f.newTransport()
	select {
	case <-a.closed:
		return nil, false
	case a.conns <- t:
		return t, true
	default:
		return nil, false
	}
}

// Transports returns a snapshot of every transport created so far.
func (f *Factory) Transports() []*Transport {
	f.mu.Lock()
	defer f.mu.Unlock()
	return append([]*Transport(nil), f.All...)
}

type Acceptor struct {
	conns    chan *Transport
	closed   chan struct{}
	once     sync.Once
	broken   chan struct{}
	brokeOne sync.Once
}

// ErrAcceptFailed is what Accept returns after Break: a failure of the listening socket itself
// (too many open files, the interface going away), not caused by Close.
var ErrAcceptFailed = errors.New("mock: accept failed")

// Break makes the pending and all later Accept calls fail although nobody closed the acceptor.
func (a *Acceptor) Break() { a.brokeOne.Do(func() { close(a.broken) }) }

// Break breaks the acceptor listening on host, if there is one.
func (f *Factory) Break(host string) bool {
	f.mu.Lock()
	a := f.accs[host]
	f.mu.Unlock()
	if a == nil {
		return false
	}
	a.Break()
	return true
}

var ErrAcceptorClosed = errors.New("mock: acceptor closed")

func (a *Acceptor) Accept() (transport.Transport, error) {
	select {
	case <-a.closed:
		return nil, ErrAcceptorClosed
	default:
	}
	select {
	case <-a.closed:
		return nil, ErrAcceptorClosed
	case <-a.broken:
		return nil, ErrAcceptFailed
	case t := <-a.conns:
		return t, nil
	}
}

func (a *Acceptor) Close() error {
	a.once.Do(func() { close(a.closed) })
	return nil
}

// IsClosed reports whether Close was called.
func (a *Acceptor) IsClosed() bool {
	select {
	case <-a.closed:
		return true
	default:
		return false
	}
}
