// Package mock provides in-memory stand-ins for the transport layer used by the harness.
package mock

import (
	"errors"
	"io"
	"net"
	"sync"
	"time"

	"github.com/go-netty/go-netty/transport"
)

// Call is one call made on the transport, in order.
type Call struct {
	Op   string   // write | writev | flush | close | read
	Bufs [][]byte // copies of the data handed over
	Err  string
}

// Transport records everything written to it. Reads are served from a queue of chunks; when the
// queue is empty Read blocks until Close (or returns ReadErr/EOF when EndOfStream was called).
type Transport struct {
	mu        sync.Mutex
	cond      *sync.Cond
	Calls     []Call
	chunks    [][]byte
	eof       bool
	readErr   error
	closed    bool
	CloseN    int
	FailWrite func(n int) error // consulted before the n-th write/writev (1-based)
	FailFlush func(n int) error
	// CloseErr: what Close returns (the connection is closed all the same: a failing close_notify, a socket torn down underneath)
	CloseErr error
	// PartialOnFail: a failing Write has already taken the first byte of the payload (n = 1 together with the error)
	PartialOnFail bool
	nWrite    int
	nFlush    int
	BytesRead int
	OnCall    func(c Call) // optional observer (called with the lock held)
	// Block, when set, is used by Read instead of waiting on the condition variable: it must return
	// once ready() holds (the cooperative controller parks the goroutine meanwhile).
	Block func(ready func() bool)
	// Stall, when set, makes every Write / Writev wait until the transport has been closed (a peer that does not
	// read: the call can only end with the connection); it must return once ready() holds.
	Stall func(ready func() bool)
}

func (t *Transport) stall() {
	if t.Stall != nil {
		t.Stall(func() bool {
			t.mu.Lock()
			defer t.mu.Unlock()
			return t.closed
		})
	}
}

type addr struct{}

func (addr) Network() string { return "mock" }
func (addr) String() string  { return "mock" }

func NewTransport() *Transport {
	t := &Transport{}
	t.cond = sync.NewCond(&t.mu)
	return t
}

func (t *Transport) record(c Call) {
	t.Calls = append(t.Calls, c)
	if t.OnCall != nil {
		t.OnCall(c)
	}
}

// Feed appends inbound chunks (each Read returns at most the rest of one chunk).
func (t *Transport) Feed(chunks ...[]byte) {
	t.mu.Lock()
	for _, c := range chunks {
		t.chunks = append(t.chunks, append([]byte(nil), c...))
	}
	t.mu.Unlock()
	t.cond.Broadcast()
}

// EndOfStream makes Read return err (io.EOF if nil) once the fed chunks are consumed.
func (t *Transport) EndOfStream(err error) {
	t.mu.Lock()
	t.eof = true
	if err == nil {
		err = io.EOF
	}
	t.readErr = err
	t.mu.Unlock()
	t.cond.Broadcast()
}

var ErrClosed = errors.New("mock: use of closed transport")

func (t *Transport) Read(p []byte) (int, error) {
	t.mu.Lock()
	defer t.mu.Unlock()
	for {
		if t.closed {
			return 0, ErrClosed
		}
		for len(t.chunks) > 0 && len(t.chunks[0]) == 0 {
			t.chunks = t.chunks[1:]
		}
		if len(t.chunks) > 0 {
			if len(p) == 0 {
				return 0, nil
			}
			n := copy(p, t.chunks[0])
			t.chunks[0] = t.chunks[0][n:]
			t.BytesRead += n
			return n, nil
		}
		if t.eof {
			return 0, t.readErr
		}
		if t.Block != nil {
			t.mu.Unlock()
			t.Block(func() bool {
				t.mu.Lock()
				defer t.mu.Unlock()
				return t.closed || t.eof || len(t.chunks) > 0
			})
			t.mu.Lock()
			continue
		}
		t.cond.Wait()
	}
}

func (t *Transport) Write(p []byte) (int, error) {
	t.stall()
	t.mu.Lock()
	defer t.mu.Unlock()
	t.nWrite++
	if t.closed {
		t.record(Call{Op: "write", Err: "closed"})
		return 0, ErrClosed
	}
	if t.FailWrite != nil {
		if err := t.FailWrite(t.nWrite); err != nil {
			t.record(Call{Op: "write", Err: err.Error()})
			if t.PartialOnFail && len(p) > 0 {
				return 1, err
			}
			return 0, err
		}
	}
	t.record(Call{Op: "write", Bufs: [][]byte{append([]byte(nil), p...)}})
	return len(p), nil
}

func (t *Transport) Writev(bufs transport.Buffers) (int64, error) {
	t.stall()
	t.mu.Lock()
	defer t.mu.Unlock()
	t.nWrite++
	if t.closed {
		t.record(Call{Op: "writev", Err: "closed"})
		return 0, ErrClosed
	}
	if t.FailWrite != nil {
		if err := t.FailWrite(t.nWrite); err != nil {
			t.record(Call{Op: "writev", Err: err.Error()})
			return 0, err
		}
	}
	var cp [][]byte
	var n int64
	for _, b := range bufs {
		cp = append(cp, append([]byte(nil), b...))
		n += int64(len(b))
	}
	t.record(Call{Op: "writev", Bufs: cp})
	return n, nil
}

func (t *Transport) Flush() error {
	t.mu.Lock()
	defer t.mu.Unlock()
	t.nFlush++
	if t.FailFlush != nil {
		if err := t.FailFlush(t.nFlush); err != nil {
			t.record(Call{Op: "flush", Err: err.Error()})
			return err
		}
	}
	t.record(Call{Op: "flush"})
	return nil
}

func (t *Transport) Close() error {
	t.mu.Lock()
	t.CloseN++
	t.closed = true
	t.record(Call{Op: "close"})
	err := t.CloseErr
	t.mu.Unlock()
	t.cond.Broadcast()
	return err
}

// Snapshot returns a copy of the call log.
func (t *Transport) Snapshot() []Call {
	t.mu.Lock()
	defer t.mu.Unlock()
	return append([]Call(nil), t.Calls...)
}

// Written returns all bytes handed over by successful write/writev calls, concatenated.
func (t *Transport) Written() []byte {
	var out []byte
	for _, c := range t.Snapshot() {
		if c.Err == "" && (c.Op == "write" || c.Op == "writev") {
			for _, b := range c.Bufs {
				out = append(out, b...)
			}
		}
	}
	return out
}

func (t *Transport) Closed() int {
	t.mu.Lock()
	defer t.mu.Unlock()
	return t.CloseN
}

func (t *Transport) LocalAddr() net.Addr                { return addr{} }
func (t *Transport) RemoteAddr() net.Addr               { return addr{} }
func (t *Transport) SetDeadline(time.Time) error        { return nil }
func (t *Transport) SetReadDeadline(time.Time) error    { return nil }
func (t *Transport) SetWriteDeadline(time.Time) error   { return nil }
func (t *Transport) RawTransport() interface{}          { return t }

var _ transport.Transport = (*Transport)(nil)
