// Package rt is the cooperative controller behind netty.NvRT: exactly one controlled goroutine
// runs at a time; every scheduling decision (which goroutine, which ready select case) is taken by
// a Strategy, so executions of the real code are deterministic, enumerable and replayable.
package rt

import (
	"fmt"
	"runtime"
	"strconv"
	"strings"
	"sync"
	"time"
)

// Choice is one scheduling decision: goroutine and (for selects with several ready cases) the case.
type Choice struct {
	Tid   string
	Case  int  // -2: not a select; -1: default branch; >=0: case index
	Sleep bool // the goroutine is parked in a sleep: it gave up the processor voluntarily
}

func (c Choice) String() string { return fmt.Sprintf("%s/%d", c.Tid, c.Case) }

// Step is one executed scheduling step.
type Step struct {
	Tid    string
	Point  string // scheduling point the goroutine was parked at (the operation this step performs)
	Case   int
	Events []string
	NAlt   int // number of alternatives that were enabled (for statistics)
	Blocked []string // goroutines parked but not enabled when this step was chosen
}

type gstate struct {
	name    string
	resume  chan int // value: select case chosen
	point   string
	ready   func() bool   // nil: always
	selRdy  func() []bool // non-nil: select
	hasDef  bool
	done    bool
	parked  bool
	started bool
	sleeping bool
}

// Strategy picks among enabled choices. prev is the goroutine that ran last ("" at the start).
type Strategy interface {
	Pick(step int, prev string, enabled []Choice) int
}

type Controller struct {
	mu      sync.Mutex
	byGoid  map[int64]*gstate
	gs      []*gstate
	arrived chan *gstate
	cur     *gstate
	Steps   []Step
	events  []string
	MaxStep int
	End     string // quiescent | deadlock | steplimit | stuck
	Parked  []string
	nextID  map[string]int
}

func New() *Controller {
	return &Controller{byGoid: map[int64]*gstate{}, arrived: make(chan *gstate), MaxStep: 2000, nextID: map[string]int{}}
}

func goid() int64 {
	var b [64]byte
	n := runtime.Stack(b[:], false)
	s := strings.TrimPrefix(string(b[:n]), "goroutine ")
	if i := strings.IndexByte(s, ' '); i > 0 {
		s = s[:i]
	}
	id, _ := strconv.ParseInt(s, 10, 64)
	return id
}

func (c *Controller) self() *gstate {
	c.mu.Lock()
	defer c.mu.Unlock()
	return c.byGoid[goid()]
}

// Emit records an observable event in the step of the currently running goroutine.
func (c *Controller) Emit(format string, a ...interface{}) {
	c.mu.Lock()
	c.events = append(c.events, fmt.Sprintf(format, a...))
	c.mu.Unlock()
}

// FreshName returns prefix1, prefix2, ...
func (c *Controller) FreshName(prefix string) string {
	c.mu.Lock()
	defer c.mu.Unlock()
	c.nextID[prefix]++
	return fmt.Sprintf("%s%d", prefix, c.nextID[prefix])
}

// Go starts a controlled goroutine; it parks at "start" before running f. May be called from
// the harness (before Run) or from a running controlled goroutine (e.g. an Executor).
func (c *Controller) Go(name string, f func()) {
	g := &gstate{name: name, resume: make(chan int)}
	c.mu.Lock()
	c.gs = append(c.gs, g)
	c.mu.Unlock()
	registered := make(chan struct{})
	go func() {
		c.mu.Lock()
		c.byGoid[goid()] = g
		g.point = "start"
		g.parked = true
		c.mu.Unlock()
		close(registered)
		<-g.resume
		defer func() {
			if r := recover(); r != nil {
				c.Emit("escaped-panic %s %v", name, strings.ReplaceAll(fmt.Sprint(r), " ", "_"))
			}
			c.mu.Lock()
			g.done = true
			g.parked = false
			delete(c.byGoid, goid())
			c.mu.Unlock()
			c.arrived <- g
		}()
		f()
	}()
	<-registered
}

func (c *Controller) park(g *gstate, point string, ready func() bool, sel func() []bool, hasDef bool) int {
	c.mu.Lock()
	g.point, g.ready, g.selRdy, g.hasDef, g.parked = point, ready, sel, hasDef, true
	c.mu.Unlock()
	c.arrived <- g
	return <-g.resume
}

// ---- netty.NvRuntime

func (c *Controller) Yield(point string) {
	if g := c.self(); g != nil {
		c.park(g, point, nil, nil, false)
	}
}

// Sleep is a yield by which the goroutine voluntarily gives up the processor (time.Sleep in a poll
// loop): strategies do not keep running such a goroutine while others are enabled, and switching
// away from it is not a preemption.
func (c *Controller) Sleep(point string) {
	if g := c.self(); g != nil {
		c.mu.Lock()
		g.sleeping = true
		c.mu.Unlock()
		c.park(g, point, nil, nil, false)
		c.mu.Lock()
		g.sleeping = false
		c.mu.Unlock()
	}
}

func (c *Controller) Await(point string, ready func() bool) {
	if g := c.self(); g != nil {
		c.park(g, point, ready, nil, false)
		return
	}
	for !ready() {
		time.Sleep(50 * time.Microsecond)
	}
}

func (c *Controller) Select(point string, ready func() []bool, hasDefault bool) int {
	g := c.self()
	if g == nil { // uncontrolled goroutine: poll
		for {
			for i, r := range ready() {
				if r {
					return i
				}
			}
			if hasDefault {
				return -1
			}
			time.Sleep(50 * time.Microsecond)
		}
	}
	return c.park(g, point, nil, ready, hasDefault)
}

// enabledChoices lists what can run now.
func (c *Controller) enabledChoices() []Choice {
	var out []Choice
	c.mu.Lock()
	gs := append([]*gstate(nil), c.gs...)
	c.mu.Unlock()
	for _, g := range gs {
		if g.done || !g.parked {
			continue
		}
		switch {
		case g.selRdy != nil:
			any := false
			for i, r := range g.selRdy() {
				if r {
					out = append(out, Choice{Tid: g.name, Case: i})
					any = true
				}
			}
			if !any && g.hasDef {
				out = append(out, Choice{Tid: g.name, Case: -1})
			}
		case g.ready != nil:
			if g.ready() {
				out = append(out, Choice{Tid: g.name, Case: -2})
			}
		default:
			out = append(out, Choice{Tid: g.name, Case: -2, Sleep: g.sleeping})
		}
	}
	return out
}

// blockedNow lists parked goroutines that no enabled choice belongs to.
func (c *Controller) blockedNow(en []Choice) []string {
	has := map[string]bool{}
	for _, ch := range en {
		has[ch.Tid] = true
	}
	var out []string
	c.mu.Lock()
	for _, g := range c.gs {
		if !g.done && g.parked && !has[g.name] {
			out = append(out, g.name+"@"+g.point)
		}
	}
	c.mu.Unlock()
	return out
}

func (c *Controller) anySelectParked() bool {
	c.mu.Lock()
	defer c.mu.Unlock()
	for _, g := range c.gs {
		if !g.done && g.parked && g.selRdy != nil {
			return true
		}
	}
	return false
}

func (c *Controller) find(name string) *gstate {
	c.mu.Lock()
	defer c.mu.Unlock()
	for _, g := range c.gs {
		if g.name == name {
			return g
		}
	}
	return nil
}

// StuckTotal counts executions abandoned because a goroutine blocked outside the controller's view
// (a real mutex or channel operation that the instrumentation does not know). Each costs the 5 s
// watchdog and leaks its goroutines, so the runners stop exploring after a few.
var StuckTotal int

// Run drives all controlled goroutines to completion / quiescence under the strategy.
func (c *Controller) Run(s Strategy) {
	prev := ""
	for step := 0; ; step++ {
		en := c.enabledChoices()
		// nothing enabled but somebody waits in a select: it may depend on real time (a timer channel
		// introduced by a code change); give it a moment before declaring quiescence
		for w := 0; len(en) == 0 && w < 30 && c.anySelectParked(); w++ {
			time.Sleep(10 * time.Millisecond)
			en = c.enabledChoices()
		}
		if len(en) == 0 {
			c.End = "quiescent"
			c.mu.Lock()
			for _, g := range c.gs {
				if !g.done {
					c.Parked = append(c.Parked, g.name+"@"+g.point)
				}
			}
			c.mu.Unlock()
			return
		}
		if step >= c.MaxStep {
			c.End = "steplimit"
			return
		}
		k := s.Pick(step, prev, en)
		if k < 0 || k >= len(en) {
			k = 0
		}
		ch := en[k]
		blocked := c.blockedNow(en)
		g := c.find(ch.Tid)
		c.mu.Lock()
		g.parked = false
		point := g.point
		c.events = nil
		c.mu.Unlock()
		g.resume <- ch.Case
		select {
		case <-c.arrived:
		case <-time.After(5 * time.Second):
			c.End = "stuck:" + ch.Tid + "@" + point
			StuckTotal++
			return
		}
		c.mu.Lock()
		ev := c.events
		c.events = nil
		c.mu.Unlock()
		c.Steps = append(c.Steps, Step{Tid: ch.Tid, Point: point, Case: ch.Case, Events: ev, NAlt: len(en), Blocked: blocked})
		prev = ch.Tid
	}
}

// ---- strategies

// Replay follows a fixed list of choices, then falls back to "continue the same goroutine, else first".
type Replay struct {
	Choices []Choice
	// Alternatives[i] = enabled set seen at step i (recorded for DFS)
	Seen [][]Choice
	Took []int
}

func (r *Replay) Pick(step int, prev string, en []Choice) int {
	k := -1
	if step < len(r.Choices) {
		for i, c := range en {
			if c == r.Choices[step] {
				k = i
			}
		}
	}
	if k < 0 {
		for i, c := range en {
			if c.Tid == prev && !c.Sleep {
				k = i
				break
			}
		}
	}
	if k < 0 { // first goroutine that is not sleeping, else anything
		for i, c := range en {
			if !c.Sleep {
				k = i
				break
			}
		}
	}
	if k < 0 {
		k = 0
	}
	r.Seen = append(r.Seen, append([]Choice(nil), en...))
	r.Took = append(r.Took, k)
	return k
}

// Random picks uniformly with a xorshift PRNG (seeded, reproducible).
type Random struct {
	State uint64
	// Stickiness in [0,100]: probability (percent) of continuing the previous goroutine when enabled
	Stickiness int
	Log        []Choice
}

func (r *Random) next() uint64 {
	r.State ^= r.State << 13
	r.State ^= r.State >> 7
	r.State ^= r.State << 17
	return r.State
}

func (r *Random) Pick(step int, prev string, en []Choice) int {
	k := -1
	if r.Stickiness > 0 && int(r.next()%100) < r.Stickiness {
		var same []int
		for i, c := range en {
			if c.Tid == prev && !c.Sleep {
				same = append(same, i)
			}
		}
		if len(same) > 0 {
			k = same[int(r.next()%uint64(len(same)))]
		}
	}
	if k < 0 {
		k = int(r.next() % uint64(len(en)))
	}
	r.Log = append(r.Log, en[k])
	return k
}
